import FinProtoc.Bytes
/-!
# Meaning of a PacketDSL program (`Schema`) and the wire format it declares (`Wire`)

This file is the *specification*: my reading of what a DSL declares the bytes to be.  It
mentions no generator.  It is short on purpose; read it first.
-/
namespace FinProtoc

inductive Scalar
  | u8 | u16 | u32 | u64 | i8 | i16 | i32 | i64 | f32 | f64 | char
  deriving DecidableEq, Repr, Inhabited

def Scalar.width : Scalar → Nat
  | .u8 | .i8 | .char => 1
  | .u16 | .i16 => 2
  | .u32 | .i32 | .f32 => 4
  | .u64 | .i64 | .f64 => 8

theorem Scalar.width_pos (t : Scalar) : 0 < t.width := by cases t <;> decide

def Scalar.name : Scalar → String
  | .u8 => "u8" | .u16 => "u16" | .u32 => "u32" | .u64 => "u64" | .i8 => "i8" | .i16 => "i16"
  | .i32 => "i32" | .i64 => "i64" | .f32 => "f32" | .f64 => "f64" | .char => "char"

def Scalar.ofName? : String → Option Scalar
  | "u8" | "uint8" => some .u8 | "u16" | "uint16" => some .u16 | "u32" | "uint32" => some .u32
  | "u64" | "uint64" => some .u64 | "i8" | "int8" => some .i8 | "i16" | "int16" => some .i16
  | "i32" | "int32" => some .i32 | "i64" | "int64" => some .i64 | "f32" | "float32" => some .f32
  | "f64" | "float64" => some .f64 | "char" => some .char
  | _ => none

/-- padding of a fixed-length string: the byte and the side it is added on -/
structure Pad where
  ch : UInt8
  left : Bool
  deriving DecidableEq, Repr, Inhabited

def Pad.default : Pad := { ch := 32, left := false }

structure Config where
  le : Bool := false
  strPfx : Scalar := .u16
  listPfx : Scalar := .u16
  pad : Pad := Pad.default
  deriving DecidableEq, Repr, Inhabited

/-- a match key literal -/
inductive Key
  | int (n : Nat)
  | str (bs : Bytes)
  deriving DecidableEq, Repr, Inhabited

inductive FKind
  | scalar (t : Scalar)
  | fixed (n : Nat) (pad : Pad)                 -- `char[n]` / `zchar[n]` with the pad already resolved
  | dyn                                          -- `string` / `char[]`
  | obj (pkt : String)                           -- referenced or inline object
  | matchOn (key : String) (pairs : List (Key × String))
  | lengthOf (t : Scalar) (target : String)
  | checksum (t : Scalar) (algo : String)
  deriving DecidableEq, Repr, Inhabited

structure Field where
  name : String
  kind : FKind
  rep : Bool := false
  deriving DecidableEq, Repr, Inhabited

structure Packet where
  name : String
  root : Bool := false
  fields : List Field
  deriving DecidableEq, Repr, Inhabited

structure Schema where
  cfg : Config
  packets : List Packet
  deriving DecidableEq, Repr, Inhabited

def Schema.find (S : Schema) (name : String) : Option Packet :=
  S.packets.find? (·.name = name)

/-! ## Messages -/

/-- The language-neutral message value. -/
inductive Val
  | int (n : Nat)                      -- scalar bit pattern
  | str (bs : Bytes)                   -- UTF-8 bytes of a string (fixed strings: without padding)
  | list (vs : List Val)               -- repeated field
  | struct (vs : List Val)             -- object: field values in declaration order
  | dyn (pkt : String) (vs : List Val) -- match payload: the packet supplied and its field values
  deriving Repr, Inhabited

/-- a checksum registry: algorithm name ↦ function of the bytes written so far, if registered -/
abbrev Registry := String → Option (Bytes → Nat)

def padTo (n : Nat) (p : Pad) (bs : Bytes) : Bytes :=
  if p.left then List.replicate (n - bs.length) p.ch ++ bs else bs ++ List.replicate (n - bs.length) p.ch

namespace Wire

/-! ### Sizes: how many bytes a value occupies.  Independent of buffer contents. -/
mutual
def sizeVal (S : Schema) : FKind → Val → Option Nat
  | .scalar t, .int _ => some t.width
  | .fixed n _, .str _ => some n
  | .dyn, .str bs => some (S.cfg.strPfx.width + bs.length)
  | .obj pkt, .struct vs => do let p ← S.find pkt; sizeFields S p.fields vs
  | .matchOn _ _, .dyn pkt vs => do let p ← S.find pkt; sizeFields S p.fields vs
  | .lengthOf t _, .int _ => some t.width
  | .checksum t _, .int _ => some t.width
  | _, _ => none
def sizeList (S : Schema) (k : FKind) : List Val → Option Nat
  | [] => some 0
  | v :: vs => do let a ← sizeVal S k v; let b ← sizeList S k vs; pure (a + b)
def sizeFields (S : Schema) : List Field → List Val → Option Nat
  | [], [] => some 0
  | f :: fs, v :: vs => do
    let a ← (if f.rep then
        match v with
        | .list es => do let n ← sizeList S f.kind es; pure (S.cfg.listPfx.width + n)
        | _ => none
      else sizeVal S f.kind v)
    let b ← sizeFields S fs vs
    pure (a + b)
  | _, _ => none
end

def sizeField (S : Schema) (f : Field) (v : Val) : Option Nat :=
  if f.rep then
    match v with
    | .list es => do let n ← sizeList S f.kind es; pure (S.cfg.listPfx.width + n)
    | _ => none
  else sizeVal S f.kind v

/-- size of the field called `target` among the fields/values of the enclosing packet -/
def lookupSize (S : Schema) : List Field → List Val → String → Option Nat
  | f :: fs, v :: vs, target => if f.name = target then sizeField S f v else lookupSize S fs vs target
  | _, _, _ => none

/-! ### Encoding.  `acc` is the whole output buffer so far (a checksum covers all of it). -/
mutual
/-- one non-repeated value; `cf, cv` are the fields/values of the enclosing packet (for length-of) -/
def encVal (S : Schema) (reg : Registry) (cf : List Field) (cv : List Val) : FKind → Val → Bytes → Option Bytes
  | .scalar t, .int n, acc => some (acc ++ encInt S.cfg.le t.width n)
  | .fixed n pad, .str bs, acc => if bs.length ≤ n then some (acc ++ padTo n pad bs) else none
  | .dyn, .str bs, acc => some (acc ++ encInt S.cfg.le S.cfg.strPfx.width bs.length ++ bs)
  | .obj pkt, .struct vs, acc => do let p ← S.find pkt; encFields S reg p.fields vs p.fields vs acc
  | .matchOn _ _, .dyn pkt vs, acc => do let p ← S.find pkt; encFields S reg p.fields vs p.fields vs acc
  | .lengthOf t target, .int _, acc => do
    let n ← lookupSize S cf cv target
    pure (acc ++ encInt S.cfg.le t.width n)
  | .checksum t algo, .int n, acc =>
    some (acc ++ encInt S.cfg.le t.width (match reg algo with | some f => f acc | none => n))
  | _, _, _ => none
def encList (S : Schema) (reg : Registry) (cf : List Field) (cv : List Val) (k : FKind) : List Val → Bytes → Option Bytes
  | [], acc => some acc
  | v :: vs, acc => do let acc' ← encVal S reg cf cv k v acc; encList S reg cf cv k vs acc'
/-- the fields `fs` with values `vs` of a packet whose complete field/value lists are `cf, cv` -/
def encFields (S : Schema) (reg : Registry) (cf : List Field) (cv : List Val) : List Field → List Val → Bytes → Option Bytes
  | [], [], acc => some acc
  | f :: fs, v :: vs, acc => do
    let acc' ← (if f.rep then
        match v with
        | .list es => encList S reg cf cv f.kind es (acc ++ encInt S.cfg.le S.cfg.listPfx.width es.length)
        | _ => none
      else encVal S reg cf cv f.kind v acc)
    encFields S reg cf cv fs vs acc'
  | _, _, _ => none
end

/-- The wire image of message `vs` of packet `pkt`, appended to `acc`. -/
def enc (S : Schema) (reg : Registry) (pkt : String) (vs : List Val) (acc : Bytes) : Option Bytes := do
  let p ← S.find pkt
  encFields S reg p.fields vs p.fields vs acc

/-! ### Decoding: the declared way to read a message back.  `call` decodes a nested packet. -/

def takeN (n : Nat) (bs : Bytes) : Option (Bytes × Bytes) :=
  if n ≤ bs.length then some (bs.take n, bs.drop n) else none

def trimPad (p : Pad) (bs : Bytes) : Bytes :=
  if p.left then bs.dropWhile (· = p.ch) else (bs.reverse.dropWhile (· = p.ch)).reverse

/-- does key literal `k` denote the decoded key value `v`?  Integer keys are compared in the
key field's width `kw` (so `40000` and the 16-bit pattern of `-25536` are the same key). -/
def keyMatches (kw : Option Nat) (k : Key) (v : Val) : Bool :=
  match k, v, kw with
  | .int a, .int n, some w => a % 256 ^ w = n % 256 ^ w
  | .str a, .str b, _ => a = b
  | _, _, _ => false

/-- byte width of the key field's type, `none` for a string key -/
def keyWidthOf (fs : List Field) (key : String) : Option (Option Nat) :=
  match fs.find? (·.name = key) with
  | some f => if f.rep then none else
    match f.kind with
    | .scalar t => some (some t.width)
    | .dyn => some none
    | .fixed _ _ => some none
    | _ => none
  | none => none

abbrev DCall := String → Bytes → Option (List Val × Bytes)

/-- one non-repeated, non-match value -/
def decPlain (S : Schema) (call : DCall) : FKind → Bytes → Option (Val × Bytes)
  | .scalar t, bs | .lengthOf t _, bs | .checksum t _, bs => do
    let (x, r) ← takeN t.width bs
    pure (.int (decInt S.cfg.le x), r)
  | .fixed n p, bs => do let (x, r) ← takeN n bs; pure (.str (trimPad p x), r)
  | .dyn, bs => do
    let (x, r) ← takeN S.cfg.strPfx.width bs
    let (y, r') ← takeN (decInt S.cfg.le x) r
    pure (.str y, r')
  | .obj pkt, bs => do let (vs, r) ← call pkt bs; pure (.struct vs, r)
  | .matchOn _ _, _ => none

def decListN (S : Schema) (call : DCall) (k : FKind) : Nat → Bytes → Option (List Val × Bytes)
  | 0, bs => some ([], bs)
  | n + 1, bs => do
    let (v, r) ← decPlain S call k bs
    let (vs, r') ← decListN S call k n r
    pure (v :: vs, r')

/-- one field; `env` holds the (name, value) pairs decoded so far in this packet, in field order -/
def decField (S : Schema) (call : DCall) (all : List Field) (env : List (String × Val)) (f : Field) (bs : Bytes) :
    Option (Val × Bytes) :=
  if f.rep then do
    let (x, r) ← takeN S.cfg.listPfx.width bs
    let (vs, r') ← decListN S call f.kind (decInt S.cfg.le x) r
    pure (.list vs, r')
  else
    match f.kind with
    | .matchOn key pairs => do
      let kv ← env.lookup key
      let kw ← keyWidthOf all key
      let (_, pkt) ← pairs.find? fun (k, _) => keyMatches kw k kv
      let (vs, r) ← call pkt bs
      pure (.dyn pkt vs, r)
    | k => decPlain S call k bs

def decFields (S : Schema) (call : DCall) (all : List Field) : List Field → List (String × Val) → Bytes → Option (List Val × Bytes)
  | [], _, bs => some ([], bs)
  | f :: fs, env, bs => do
    let (v, r) ← decField S call all env f bs
    let (vs, r') ← decFields S call all fs (env ++ [(f.name, v)]) r
    pure (v :: vs, r')

/-- Read one message of packet `pkt` from the front of `bs`: its field values and the unread rest.
`none` = the bytes are not a message of this packet (truncated input, unknown match key, …). -/
def dec (S : Schema) : Nat → DCall
  | 0 => fun _ _ => none
  | fuel + 1 => fun pkt bs => do
    let p ← S.find pkt
    decFields S (dec S fuel) p.fields p.fields [] bs

end Wire
end FinProtoc
