import FinProtoc.Dsl.Cst
import FinProtoc.SpecOf
/-!
# Model of the Go visitor (`packet_dsl_parser.go`) and of `model.go`

Follows `VisitPacket` statement by statement: MetaData first, then options, then packets,
then `ResolveDependencies`, including what goes wrong today.  Every Go operation that can
panic is an explicit `throw`.  Attribute and padding objects live in a store because the Go
model aliases them (a MetaData-typed field holds THE attribute object of its MetaData entry).
-/
namespace FinProtoc.Visit
open FinProtoc FinProtoc.Dsl

/-- `strconv.Atoi` with the error ignored: out-of-range input yields the clamped value -/
def atoi (s : String) : Nat := min (natOfDigits s) (2 ^ 63 - 1)

inductive Crash
  | nilDeref (site : String)
  | assert (site : String)
  | index (site : String)
  | stack
  deriving Repr, Inhabited, DecidableEq

def Crash.kind : Crash → String
  | .nilDeref _ => "nil" | .assert _ => "assert" | .index _ => "index" | .stack => "stack"

structure PadCell where
  ch : String
  left : Bool
  deriving Repr, Inhabited, DecidableEq

structure MPair where
  key : String
  value : String
  line : Nat
  deriving Repr, Inhabited, DecidableEq

/-- what an `ObjectFieldAttribute.RefPacket` points to -/
inductive RefP
  | none
  | named (name : String)     -- a top-level packet
  | inline (pid : Nat)        -- the anonymous packet of an inline object (index into `ipackets`)
  deriving Repr, Inhabited, DecidableEq

inductive AttrK
  | basic (ty : String)
  | length (ty : String) (target : Option String)
  | lengthOf (field : String)
  | checksum (ty : String) (algo : String)
  | fixed (n : Nat) (pad : Option Nat)
  | dyn
  | object (iner : Bool) (packet : String) (ref : RefP)
  | match_ (key : Option String) (keyResolved : Bool) (pairs : List MPair)
  deriving Repr, Inhabited, DecidableEq

structure MField where
  name : String
  attr : Option Nat
  lenAttr : Option Nat := none
  rep : Bool := false
  doc : String := ""
  tag : Nat := 0
  line : Nat := 0
  deriving Repr, Inhabited, DecidableEq

structure MPacket where
  name : String
  root : Bool
  lengthField : Option String := none
  fields : List MField
  fieldMap : List String := []                       -- keys
  matchFields : List (String × List MPair) := []     -- by key field name
  line : Nat := 0
  deriving Repr, Inhabited

structure MMeta where
  name : String
  attr : Option Nat
  desc : String
  line : Nat
  deriving Repr, Inhabited, DecidableEq

structure VState where
  attrs : Array AttrK := #[]
  pads : Array PadCell := #[]
  ipackets : Array MPacket := #[]
  metas : List MMeta := []
  options : List (String × String) := []
  packets : List MPacket := []
  root : Option String := none
  diags : List (Nat × String) := []
  deriving Repr, Inhabited

abbrev V := StateT VState (Except Crash)

def newAttr (a : AttrK) : V Nat := do
  let s ← get
  set { s with attrs := s.attrs.push a }
  pure s.attrs.size

def newPad (p : PadCell) : V Nat := do
  let s ← get
  set { s with pads := s.pads.push p }
  pure s.pads.size

def addDiag (line : Nat) (msg : String) : V Unit :=
  modify fun s => { s with diags := s.diags ++ [(line, msg)] }

def findMeta (s : VState) (name : String) : Option MMeta := s.metas.find? (·.name = name)

/-- the `switch` of `getBasicType` (model.go), on the already lower-cased spelling -/
def basicTypeCanon (t : String) : Option String :=
  match t with
  | "i8" | "int8" => some "i8" | "i16" | "int16" => some "i16" | "i32" | "int32" => some "i32" | "i64" | "int64" => some "i64"
  | "u8" | "uint8" => some "u8" | "u16" | "uint16" => some "u16" | "u32" | "uint32" => some "u32" | "u64" | "uint64" => some "u64"
  | "f32" | "float32" => some "f32" | "f64" | "float64" => some "f64"
  | _ => none

/-- `getBasicType` of model.go: the switch is on `strings.ToLower(fieldType)`, the default returns the spelling as written -/
def getBasicType (t : String) : String := (basicTypeCanon t.toLower).getD t

/-- `FieldAttribute.GetType()` -/
def attrGetType : AttrK → String
  | .basic t => getBasicType t
  | .length t _ => getBasicType t
  | .lengthOf _ => ""
  | .checksum t _ => getBasicType t
  | .fixed _ _ => "string"
  | .dyn => "string"
  | .object _ _ _ => "object"
  | .match_ _ _ _ => "match"

/-- `Field.GetType()`; dereferences the attribute (nil ⇒ panic) and, for objects, `RefPacket` -/
def fieldGetType (s : VState) (attr : Option Nat) (site : String) : Except Crash String :=
  match attr with
  | none => throw (.nilDeref site)
  | some i =>
    match s.attrs[i]? with
    | none => throw (.nilDeref site)
    | some a =>
      match a with
      | .fixed _ _ | .dyn => pure "string"
      | .object _ _ ref =>
        match ref with
        | .none => pure (match a with | .object _ pkt _ => pkt | _ => "")
        | .named n => pure n
        | .inline pid => pure ((s.ipackets[pid]?.map (·.name)).getD "")
      | .match_ _ _ _ => pure "match"
      | a =>
        let t := attrGetType a
        match t.toLower with
        | "string" | "char[]" => pure "string"
        | _ => pure (getBasicType t)

def tyAttr (ty : Ty) (name : String) : V Nat :=
  match ty with
  | .basic t => newAttr (.basic t.text)
  | .fixed kw n _ => do
    if natOfDigits n.text > 2 ^ 31 - 1 then
      addDiag kw.line ("Length of fixed string " ++ name ++ " is out of range: " ++ n.text)
    if kw.kind = .zcharLb then do
      let p ← newPad { ch := "'\x00'", left := false }
      newAttr (.fixed (atoi n.text) (some p))
    else newAttr (.fixed (atoi n.text) none)
  | .dyn _ => newAttr .dyn

def VState.diag (s : VState) (line : Nat) (msg : String) : VState := { s with diags := s.diags ++ [(line, msg)] }

/-- `AddMetaData` as a state function -/
def addMetaS (m : MMeta) (s : VState) : VState :=
  if (findMeta s m.name).isSome then s.diag m.line ("Duplicate metadata definition for " ++ m.name)
  else { s with metas := s.metas ++ [m] }

def addMeta (m : MMeta) : V Unit := modify (addMetaS m)

def optionNames : List String :=
  ["ArrayPrefixLenType", "FixedStringPadChar", "FixedStringPadFromLeft", "GoModule", "GoPackage", "JavaPackage", "LittleEndian", "StringPrefixLenType"]

/-- allowed values per option (`var options` of model.go; note the raw NUL in the pad-char list) -/
def optionValues : String → Option (List String)
  | "StringPrefixLenType" | "ArrayPrefixLenType" => some ["u8", "u16", "u32", "u64"]
  | "LittleEndian" | "FixedStringPadFromLeft" => some ["true", "false"]
  | "JavaPackage" | "GoPackage" | "GoModule" => some []
  | "FixedStringPadChar" => some ["'0'", "' '", "'\x00'", "'\\x00'"]
  | _ => none

/-- `AddOption` as a state function -/
def addOptionS (name value : String) (line : Nat) (s : VState) : VState :=
  match optionValues name with
  | none => s.diag line ("Option " ++ name ++ " is not allowed in this context, Expected one of:" ++ ",".intercalate optionNames)
  | some values =>
    let s1 := if !values.isEmpty && !values.contains value then
        s.diag line ("Option " ++ name ++ " is not allowed to be " ++ value ++ ", Expected one of:" ++ ",".intercalate values)
      else s
    if (s1.options.lookup name).isSome then s1.diag line ("Option " ++ name ++ " is already defined")
    else { s1 with options := s1.options ++ [(name, value)] }

def addOption (name value : String) (line : Nat) : V Unit := modify (addOptionS name value line)

def trimQuotes (s : String) : String :=
  String.ofList (((s.toList.dropWhile (· = '"')).reverse.dropWhile (· = '"')).reverse)

/-- `decimalKey`: an integer key without leading zeros (string keys are kept as written) -/
def keyText (t : Tok) : String :=
  if t.kind = .digits then
    (let s := String.ofList (t.text.toList.dropWhile (· = '0')); if s.isEmpty then "0" else s)
  else t.text

/-- `VisitMatchPair` (digits of a list first, then its strings) -/
def pairsOfMatch (d : MatchDecl) : List MPair :=
  (d.pairs.map fun p =>
    match p.key with
    | .single t => [{ key := keyText t, value := p.target.text, line := p.key.start.line : MPair }]
    | .list _ f rest _ =>
      let items := f :: rest.map (·.2)
      ((items.filter (·.kind = .digits)) ++ (items.filter (·.kind = .string))).map fun t =>
        { key := keyText t, value := p.target.text, line := t.line }).flatten

def docOf : Option Tok → String
  | some t => t.text
  | none => ""

/-! ## `VisitFieldDefinition`

Everything `Visit.run` uses is total: the recursion over the nested `FieldDef` is mutual structural
recursion (`visitFieldDef` / `visitFieldDefs`), every loop is a `List.forM` / `List.foldlM` over a named
step function.  `FinProtoc/Proofs/VisitSafe.lean` proves that no `throw` below is ever reached
(`Props/C11.lean`, `visit_no_crash`). -/

/-- is the attribute object a `LengthFieldAttribute`? -/
def isLenK : Option AttrK → Bool
  | some (.length _ _) => true
  | _ => false

/-- `MatchFields[key] = pairs` (entries are kept in the order of their last assignment) -/
def addMatchField (mfs : List (String × List MPair)) : Option AttrK → List (String × List MPair)
  | some (.match_ (some k) _ pairs) => (mfs.filter (·.1 ≠ k)) ++ [(k, pairs)]
  | _ => mfs

/-- object-typed field (`ObjectField`): a MetaData-typed field shares THE attribute of its entry -/
def visitObj (rep : Option Tok) (ft : Tok) (fn : Option Tok) : V MField := do
  let s ← get
  let name := match fn with | some n => n.text | none => ft.text
  match findMeta s ft.text with
  | some m => pure { name, attr := m.attr, rep := rep.isSome, line := (rep.getD ft).line }
  | none => do
    let a ← newAttr (.object false ft.text .none)
    pure { name, attr := some a, rep := rep.isSome, line := (rep.getD ft).line }

/-- the type of a length / checksum field declared in the suffix form: the written type; only when none is written, the type
of the MetaData entry named like the field (`fix:` 2df72d0 — before it the entry won over the written type) -/
def metaTypeOf (name : String) (hasTy : Bool) (typ0 : String) (line : Nat) (site : String) : V String := do
  if hasTy then pure typ0
  else
    let s ← get
    match findMeta s name with
    | some m => match m.attr.bind (s.attrs[·]?) with
      | some a => pure (attrGetType a)
      | none => throw (.nilDeref site)
    | none => do
      -- no type written and no MetaData entry to take it from
      addDiag line ("Unknown MetaData type " ++ name ++ " for field " ++ name ++ " declared without a type")
      pure typ0

def visitLen (d : LenDecl) (line : Nat) : V MField := do
  let name := d.name.text
  let typ0 := match d.ty with | some t => t.text | none => name
  let typ ← metaTypeOf name d.ty.isSome typ0 line "VisitLengthFieldDeclaration: MetaData attr"
  let a ← newAttr (.length typ (some d.attr.from_.text))
  pure { name, attr := some a, doc := docOf d.doc, line := line }

def visitCks (d : CkDecl) (line : Nat) : V MField := do
  let name := d.name.text
  let typ0 := match d.ty with | some t => t.text | none => name
  let typ ← metaTypeOf name d.ty.isSome typ0 line "VisitCheckSumFieldDeclaration: MetaData attr"
  let a ← newAttr (.checksum typ d.attr.from_.text)
  pure { name, attr := some a, doc := docOf d.doc, line := line }

def visitMetaF (rep : Option Tok) (d : MetaDecl) : V MField := do
  let a ← tyAttr d.ty d.name.text
  let doc := match d.doc with | some t => String.ofList ((t.text.toList.drop 1).dropLast) | none => ""
  pure { name := d.name.text, attr := some a, rep := rep.isSome, doc, line := d.ty.start.line }

/-- every key that occurred before is reported at its own line (the pair is kept all the same) -/
def dupKeyStep (seen : List String) (pr : MPair) : V (List String) := do
  if seen.contains pr.key then
    addDiag pr.line ("Duplicate match key: " ++ pr.key)
    pure seen
  else pure (pr.key :: seen)

def visitMatch (d : MatchDecl) : V MField := do
  let _ ← (pairsOfMatch d).foldlM dupKeyStep []
  let a ← newAttr (.match_ (some d.key.text) false (pairsOfMatch d))
  pure { name := d.name.text, attr := some a }

/-- inline object, per sub-field: the key of a match field is looked up among the sub-fields -/
def inerMatchStep (subs : List MField) (f : MField) (line : Nat) : V Unit := do
  let s ← get
  match f.attr.bind (s.attrs[·]?), f.attr with
  | some (.match_ (some k) _ pairs), some ai =>
    match subs.reverse.find? (·.name = k) with
    | some kf => modify fun s => { s with attrs := s.attrs.set! ai (.match_ (some k) kf.attr.isSome pairs) }
    | none => addDiag line ("Unknown key field " ++ k ++ " for match field " ++ f.name)
  | _, _ => pure ()

/-- inline object, per sub-field: a length field is only allowed in the root packet -/
def inerLenStep (f : MField) (line : Nat) : V Unit := do
  let s ← get
  if isLenK (f.attr.bind (s.attrs[·]?)) then
    addDiag line "LengthOfField can only be declared in the root packet"

def inerStep (subs : List MField) (x : MField × FieldDef) : V Unit := do
  inerMatchStep subs x.1 x.2.start.line
  inerLenStep x.1 x.2.start.line

/-- FieldMap / MatchFields are filled in only when the inline object has a match field -/
def matchFieldsOf (s : VState) (subs : List MField) : List (String × List MPair) :=
  subs.foldl (fun (mfs : List (String × List MPair)) f => addMatchField mfs (f.attr.bind (s.attrs[·]?))) []

/-- inline object, after its sub-fields were visited: checks, then the anonymous packet and its attribute -/
def inerFinish (rep : Option Tok) (name : Tok) (fields : List FieldDef) (subs : List MField) : V MField := do
  -- match fields and length fields inside the inline object
  (subs.zip fields).forM (inerStep subs)
  let s ← get
  let mfs := matchFieldsOf s subs
  let fmap := if mfs.isEmpty then [] else (subs.map (·.name)).eraseDups
  let pid := s.ipackets.size
  set { s with ipackets := s.ipackets.push { name := name.text, root := false, fields := subs, fieldMap := fmap, matchFields := mfs,
                                             line := (rep.getD name).line } }
  let a ← newAttr (.object true name.text (.inline pid))
  pure { name := name.text, attr := some a, rep := rep.isSome, line := (rep.getD name).line }

mutual
/-- `VisitFieldDefinition` -/
def visitFieldDef : FieldDef → V MField
  | .obj rep ft fn _ _ => visitObj rep ft fn
  | .iner rep name _ fields _ _ => do
    let subs ← visitFieldDefs fields
    inerFinish rep name fields subs
  | .len d => visitLen d (FieldDef.len d).start.line
  | .cks d => visitCks d (FieldDef.cks d).start.line
  | .metaF rep d => visitMetaF rep d
  | .match_ d _ => visitMatch d
/-- the sub-fields of an inline object, in order -/
def visitFieldDefs : List FieldDef → V (List MField)
  | [] => pure []
  | fd :: fds => do
    let f ← visitFieldDef fd
    let fs ← visitFieldDefs fds
    pure (f :: fs)
end

/-- one attribute of `VisitFieldDefinitionWithAttribute` -/
def attrStep (fld : MField) (a : Attr) : V MField := do
  match a with
  | .calc c => do
    let t ← fieldGetType (← get) fld.attr "calculatedFrom attribute: f.GetType()"
    let na ← newAttr (.checksum t c.from_.text)
    pure { fld with attr := some na }
  | .len l => do
    let t ← fieldGetType (← get) fld.attr "lengthOf attribute: f.GetType()"
    let na ← newAttr (.length t (some l.from_.text))
    pure { fld with attr := some na }
  | .pad kw _ ch _ => do
    let padChar := match ch with | some c => (if c.text = "'\\x00'" then "'\x00'" else c.text) | none => "' '"
    let s ← get
    match fld.attr.bind (s.attrs[·]?) with
    | some (.fixed n _) => do
      -- the field gets its own copy of the attribute object
      let p ← newPad { ch := padChar, left := (kw.text.splitOn "left").length > 1 }
      let na ← newAttr (.fixed n (some p))
      pure { fld with attr := some na }
    | _ => do
      addDiag kw.line ("Padding attribute is only allowed on char[n] fields, not on field " ++ fld.name)
      pure fld
  | .tag _ n _ => pure { fld with tag := atoi n.text }

/-- `VisitFieldDefinitionWithAttribute` -/
def visitFieldWA (f : FieldWA) : V MField := do
  let fld ← visitFieldDef f.fd
  f.attrs.foldlM attrStep fld

def setField (fs : List MField) (i : Nat) (f : MField) : List MField := fs.set i f

/-- the Go `lengthField` pointer: the field and, when it is in `fields`, its position -/
abbrev LenF := Option (MField × Option Nat)

/-- accumulator of the first loop of `VisitPacketDefinition`: fields, their lines, `lengthField`, match fields -/
abbrev Acc1 := List MField × List Nat × LenF × List (String × List MPair)

/-- first loop of `VisitPacketDefinition`: visit, length-field checks, duplicate check, fields / fieldMap / matchFields -/
def pktStep1 (isRoot : Bool) (pname : String) (acc : Acc1) (fwa : FieldWA) : V Acc1 := do
  let (fields, lines, lenF, mfs) := acc
  let fld ← visitFieldWA fwa
  let s ← get
  let isLen := isLenK (fld.attr.bind (s.attrs[·]?))
  if isLen && !isRoot then
    addDiag fwa.start.line "LengthOfField can only be declared in the root packet"
    pure acc
  else if isLen && lenF.isSome then
    addDiag fwa.start.line "Duplicate LengthOfField declaration"
    pure acc
  else
    let dup := fields.any (·.name = fld.name)
    let lenF := if isLen then some (fld, if dup then none else some fields.length) else lenF
    if dup then
      addDiag fwa.start.line ("Duplicate field definition for " ++ fld.name ++ " in packet " ++ pname)
      pure (fields, lines, lenF, mfs)
    else
      pure (fields ++ [fld], lines ++ [fwa.start.line], lenF, addMatchField mfs (fld.attr.bind (s.attrs[·]?)))

/-- between the loops: the length field's target must exist (and come after the length field) -/
def pktLenCheck (fields : List MField) (lines : List Nat) (fieldMap : List String) (lenF : LenF) : V LenF := do
  match lenF with
  | some (lf, li) => do
    let s ← get
    match lf.attr.bind (s.attrs[·]?) with
    | some (.length _ (some tname)) =>
      if fieldMap.contains tname then
        -- the slot is reserved where the length field stands and patched after the target: the length field comes first
        match li, fields.findIdx? (·.name = tname) with
        | some i, some j =>
          if j ≤ i then do
            addDiag (lines.getD i 0) ("Field " ++ tname ++ " measured by @lengthOf of field " ++ lf.name ++ " must be declared after it")
            pure none
          else pure lenF
        | _, _ => pure lenF
      else do
        addDiag (match li with | some i => lines.getD i 0 | none => 0) ("Unknown field " ++ tname ++ " for @lengthOf of field " ++ lf.name)
        pure none
    | _ => pure lenF
  | none => pure none

/-- the current state of the length field object: the field at its position, or the detached object -/
def curLenField (fs : List MField) (lf0 : MField) : Option Nat → MField
  | some j => fs[j]!
  | none => lf0

/-- second loop, first half: the measured field and the length field get their `LengthOfAttribute`s -/
def pktStep2Len (lenF : LenF) (fs : List MField) (i : Nat) : V (List MField) := do
  let f := fs[i]!
  let s ← get
  match lenF with
  | some (lf0, li) =>
    let lf := curLenField fs lf0 li
    match lf.attr.bind (s.attrs[·]?) with
    | some (.length _ tgt) =>
      match tgt with
      | none => throw (.nilDeref "lengthField.Attr.TragetField.Name")
      | some tname =>
        if f.name = tname then do
          let lo ← newAttr (.lengthOf lf.name)
          let fs := match li with | some j => setField fs j { fs[j]! with lenAttr := some lo } | none => fs
          pure (setField fs i { fs[i]! with lenAttr := lf.attr })
        else pure fs
    | _ => throw (.assert "lengthField.Attr.(*LengthFieldAttribute)")
  | none => pure fs

/-- second loop, second half: object references, the length field's type and target, match keys -/
def pktStep2Res (fieldMap : List String) (lines : List Nat) (fs : List MField) (i : Nat) : V (List MField) := do
  let f := fs[i]!
  let s ← get
  match f.attr.bind (s.attrs[·]?), f.attr with
  | some (.object false pkt _), some ai =>
    let ref := if s.packets.any (·.name = pkt) then RefP.named pkt else RefP.none
    modify fun s => { s with attrs := s.attrs.set! ai (.object false pkt ref) }
    pure fs
  | some (.length _ (some tname)), some _ => do
    let t ← fieldGetType s f.attr "LengthType: f.GetType()"
    let tgt := if fieldMap.contains tname then some tname else none
    let na ← newAttr (.length t tgt)
    pure (setField fs i { f with attr := some na })
  | some (.match_ (some k) _ pairs), some ai =>
    match fs.find? (·.name = k) with
    | some kf =>
      modify fun s => { s with attrs := s.attrs.set! ai (.match_ (some k) kf.attr.isSome pairs) }
      pure fs
    | none => do
      addDiag (lines.getD i 0) ("Unknown key field " ++ k ++ " for match field " ++ f.name)
      pure fs
  | _, _ => pure fs

/-- second loop of `VisitPacketDefinition`, over the field pointers -/
def pktStep2 (lenF : LenF) (fieldMap : List String) (lines : List Nat) (fs : List MField) (i : Nat) : V (List MField) := do
  let fs ← pktStep2Len lenF fs i
  pktStep2Res fieldMap lines fs i

/-- `VisitPacketDefinition` -/
def visitPacketDef (p : PacketDef) : V MPacket := do
  let isRoot := p.root.isSome
  let pname := p.name.text
  let (fields, lines, lenF, matchFields) ← p.fields.foldlM (pktStep1 isRoot pname) ([], [], none, [])
  let fieldMap := fields.map (·.name)
  let lenF ← pktLenCheck fields lines fieldMap lenF
  let fieldsArr ← (List.range fields.length).foldlM (pktStep2 lenF fieldMap lines) fields
  pure { name := pname, root := isRoot, lengthField := lenF.map fun (lf, _) => lf.name,
         fields := fieldsArr, fieldMap := fieldMap, matchFields := matchFields, line := p.start.line }

/-- `AddPacket` as a state function -/
def addPacketS (p : MPacket) (s : VState) : VState :=
  if s.packets.any (·.name = p.name) then s.diag p.line ("Duplicate packet definition for " ++ p.name)
  else
    let s1 := { s with packets := s.packets ++ [p] }
    if p.root then
      if s.root.isSome then s1.diag p.line "Multiple root packets are not allowed"
      else { s1 with root := some p.name }
    else s1

def addPacket (p : MPacket) : V Unit := modify (addPacketS p)

/-- match targets of one match field -/
def matchTargetStep (f : MField) (pr : MPair) : V Unit := do
  let s ← get
  if !(s.packets.any (·.name = pr.value)) then
    addDiag pr.line ("Unknown packet type " ++ pr.value ++ " for match key " ++ pr.key ++ " of field " ++ f.name)

/-- `resolveFields`, one field: packet references (inline objects included) and match targets.

The Go function recurses through the anonymous packet of an inline object.  Here that descent is
structural recursion on `fuel`; running out of fuel is an honest `throw .stack`, and
`Proofs/VisitSafe.lean` (`resolveField_safe`) proves that it is never reached when the fuel is the number of
anonymous packets: an anonymous packet only refers to anonymous packets registered BEFORE it (its sub-objects
are pushed first), so every descent goes to a strictly smaller `pid`.  The result is therefore the same as
that of the unbounded recursion on every input. -/
def resolveField : Nat → MField → V Unit
  | fuel, f => do
    let s ← get
    match f.attr.bind (s.attrs[·]?), f.attr with
    | some (.object iner pkt .none), some ai =>
      if s.packets.any (·.name = pkt) then
        modify fun s => { s with attrs := s.attrs.set! ai (.object iner pkt (.named pkt)) }
      else addDiag f.line ("Unknown packet type " ++ pkt ++ " for field " ++ f.name)
    | some (.object true _ (.inline pid)), _ =>
      match s.ipackets[pid]? with
      | some ip =>
        match fuel with
        | 0 => throw .stack
        | fuel + 1 => ip.fields.forM (resolveField fuel)
      | none => pure ()
    | some (.match_ _ _ pairs), _ => pairs.forM (matchTargetStep f)
    | _, _ => pure ()

/-- `resolveFields` -/
def resolveFields (fuel : Nat) (fields : List MField) : V Unit := fields.forM (resolveField fuel)

/-- `checkRecursion`: depth-first search over packet references; the first back edge is reported -/
structure RecSt where
  grey : List String := []
  black : List String := []
  report : Option (Nat × String) := none

/-- the DFS of `checkRecursion`, total: structural recursion on `fuel` (one unit per call).

A descent goes either into the anonymous packet of an inline object or into a named packet that is neither
grey nor black and is made grey first.  `grey` never shrinks, so along one chain of calls the named packets are
pairwise distinct (at most `packets.length` of them, the starting packet included), and between two of them
the inline descents go to strictly smaller `pid`s (at most `ipackets.size`; an anonymous packet only holds
anonymous packets registered before it, `Inv.ipkOK` in `Proofs/VisitSafe.lean`).  A chain is therefore
shorter than `recFuel s`, the `0` case is never reached from `checkRecursion`, and the result is that of the
unbounded recursion.  (This bound is argued here, not proved in Lean; `visit_no_crash` does not depend on it:
`checkRecursion` cannot throw whatever `recVisit` returns.  The differential `model` op compares the reported
back edge with the real code's on every run.) -/
def recVisit (s : VState) : Nat → String → List MField → RecSt → RecSt
  | 0, _, _, st => st
  | fuel + 1, pname, fields, st =>
    fields.foldl (fun st f =>
      let (st, next) : RecSt × List String := match f.attr.bind (s.attrs[·]?) with
        | some (.object true _ (.inline pid)) =>
          (match s.ipackets[pid]? with | some ip => recVisit s fuel pname ip.fields st | none => st, [])
        | some (.object false _ (.named q)) => (st, [q])
        | some (.match_ _ _ pairs) => (st, (pairs.map (·.value)).filter fun q => s.packets.any (·.name = q))
        | _ => (st, [])
      next.foldl (fun st q =>
        if st.black.contains q then st
        else if st.grey.contains q then
          (if st.report.isSome then st else
            { st with report := some (f.line, "Recursive packet reference: field " ++ f.name ++ " of packet " ++ pname ++ " leads back to packet " ++ q) })
        else
          match s.packets.find? (·.name = q) with
          | some qp =>
            let st := recVisit s fuel q qp.fields { st with grey := q :: st.grey }
            { st with black := q :: st.black }
          | none => st) st) st

/-- more than the longest possible chain of `recVisit` calls -/
def recFuel (s : VState) : Nat := (s.packets.length + 1) * (s.ipackets.size + 1) + 1

def checkRecursion : V Unit := do
  let s ← get
  let st := s.packets.foldl (fun (st : RecSt) p =>
    if st.black.contains p.name || st.grey.contains p.name then st
    else
      let st := recVisit s (recFuel s) p.name p.fields { st with grey := p.name :: st.grey }
      { st with black := p.name :: st.black }) {}
  match st.report with
  | some (line, msg) => addDiag line msg
  | none => pure ()

/-- `ResolveDependencies` -/
def resolveDeps : V Unit := do
  let s ← get
  s.packets.forM (fun p => resolveFields s.ipackets.size p.fields)
  checkRecursion

/-- one MetaData entry -/
def metaEntryStep (e : MetaEntry) : V Unit := do
  match e with
  | .decl d =>
    let a ← tyAttr d.ty d.name.text
    addMeta { name := d.name.text, attr := some a, desc := docOf d.doc, line := d.ty.start.line }
  | .ref r =>
    let s ← get
    let attr := (findMeta s r.typ.text).bind (·.attr)
    if (findMeta s r.typ.text).isNone then
      addDiag r.typ.line ("Unknown MetaData type " ++ r.typ.text ++ " for " ++ r.name.text)
    -- a reference to an undeclared entry has no type: it is diagnosed and not registered
    if attr.isSome then
      addMeta { name := r.name.text, attr, desc := docOf r.doc, line := r.typ.line }

def metaStep (d : TopDef) : V Unit :=
  match d with
  | .metaD m => m.entries.forM metaEntryStep
  | _ => pure ()

def optDeclStep (od : OptDecl) : V Unit :=
  let value := match od.value with
    | .tok t => if t.kind = .string then trimQuotes t.text else t.text
    | .ty t => t.text
  addOption od.name.text value od.name.line

def optStep (d : TopDef) : V Unit :=
  match d with
  | .opt o => o.decls.forM optDeclStep
  | _ => pure ()

def packetStep (d : TopDef) : V Unit :=
  match d with
  | .packet p => do
    let mp ← visitPacketDef p
    addPacket mp
  | _ => pure ()

/-- `VisitPacket`: MetaData first, then options, then packets, then `ResolveDependencies` -/
def visitCst (c : Cst) : V Unit := do
  c.defs.forM metaStep
  c.defs.forM optStep
  c.defs.forM packetStep
  resolveDeps

def run (c : Cst) : Except Crash VState := (visitCst c).run {} |>.map (·.2)

/-- `NewConfiguration` -/
structure MConfig where
  list : String
  str : String
  java : String
  gopkg : String
  gomod : String
  le : Bool
  pad : PadCell
  deriving Repr, Inhabited, DecidableEq

def configOfOptions (opts : List (String × String)) : MConfig :=
  let g := fun k d => (opts.lookup k).getD d
  let fromLeft : Bool := match opts.lookup "FixedStringPadFromLeft" with | some v => v.toLower == "true" | none => false
  let padChar := g "FixedStringPadChar" "' '"
  { list := g "ArrayPrefixLenType" "u16", str := g "StringPrefixLenType" "u16", java := g "JavaPackage" "",
    gopkg := g "GoPackage" "", gomod := g "GoModule" "",
    le := (match opts.lookup "LittleEndian" with | some v => v.toLower == "true" | none => false),
    pad := if fromLeft || padChar ≠ "' '" then { ch := padChar, left := fromLeft } else { ch := "' '", left := false } }

end FinProtoc.Visit
