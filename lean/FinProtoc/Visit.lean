import FinProtoc.Dsl.Cst
import FinProtoc.SpecOf
/-!
# Model of the Go visitor (`packet_dsl_parser.go`) and of `model.go`

Follows `VisitPacket` statement by statement: MetaData first, then options, then packets,
then `ResolveDependencies`, including what goes wrong today.  Every Go operation that can
panic is an explicit `throw`.  Attribute and padding objects live in a store because the Go
model aliases them (a MetaData-typed field holds THE attribute object of its MetaData entry).
-/
namespace FinProtoc.Visit
open FinProtoc FinProtoc.Dsl

/-- `strconv.Atoi` with the error ignored: out-of-range input yields the clamped value -/
def atoi (s : String) : Nat := min (natOfDigits s) (2 ^ 63 - 1)

inductive Crash
  | nilDeref (site : String)
  | assert (site : String)
  | index (site : String)
  | stack
  deriving Repr, Inhabited, DecidableEq

def Crash.kind : Crash → String
  | .nilDeref _ => "nil" | .assert _ => "assert" | .index _ => "index" | .stack => "stack"

structure PadCell where
  ch : String
  left : Bool
  deriving Repr, Inhabited, DecidableEq

structure MPair where
  key : String
  value : String
  line : Nat
  deriving Repr, Inhabited, DecidableEq

/-- what an `ObjectFieldAttribute.RefPacket` points to -/
inductive RefP
  | none
  | named (name : String)     -- a top-level packet
  | inline (pid : Nat)        -- the anonymous packet of an inline object (index into `ipackets`)
  deriving Repr, Inhabited, DecidableEq

inductive AttrK
  | basic (ty : String)
  | length (ty : String) (target : Option String)
  | lengthOf (field : String)
  | checksum (ty : String) (algo : String)
  | fixed (n : Nat) (pad : Option Nat)
  | dyn
  | object (iner : Bool) (packet : String) (ref : RefP)
  | match_ (key : Option String) (keyResolved : Bool) (pairs : List MPair)
  deriving Repr, Inhabited, DecidableEq

structure MField where
  name : String
  attr : Option Nat
  lenAttr : Option Nat := none
  rep : Bool := false
  doc : String := ""
  tag : Nat := 0
  line : Nat := 0
  deriving Repr, Inhabited, DecidableEq

structure MPacket where
  name : String
  root : Bool
  lengthField : Option String := none
  fields : List MField
  fieldMap : List String := []                       -- keys
  matchFields : List (String × List MPair) := []     -- by key field name
  line : Nat := 0
  deriving Repr, Inhabited

structure MMeta where
  name : String
  attr : Option Nat
  desc : String
  line : Nat
  deriving Repr, Inhabited, DecidableEq

structure VState where
  attrs : Array AttrK := #[]
  pads : Array PadCell := #[]
  ipackets : Array MPacket := #[]
  metas : List MMeta := []
  options : List (String × String) := []
  packets : List MPacket := []
  root : Option String := none
  diags : List (Nat × String) := []
  deriving Repr, Inhabited

abbrev V := StateT VState (Except Crash)

def newAttr (a : AttrK) : V Nat := do
  let s ← get
  set { s with attrs := s.attrs.push a }
  pure s.attrs.size

def newPad (p : PadCell) : V Nat := do
  let s ← get
  set { s with pads := s.pads.push p }
  pure s.pads.size

def addDiag (line : Nat) (msg : String) : V Unit :=
  modify fun s => { s with diags := s.diags ++ [(line, msg)] }

def findMeta (s : VState) (name : String) : Option MMeta := s.metas.find? (·.name = name)

/-- `getBasicType` of model.go -/
def getBasicType (t : String) : String :=
  match t.toLower with
  | "i8" | "int8" => "i8" | "i16" | "int16" => "i16" | "i32" | "int32" => "i32" | "i64" | "int64" => "i64"
  | "u8" | "uint8" => "u8" | "u16" | "uint16" => "u16" | "u32" | "uint32" => "u32" | "u64" | "uint64" => "u64"
  | "f32" | "float32" => "f32" | "f64" | "float64" => "f64"
  | _ => t

/-- `FieldAttribute.GetType()` -/
def attrGetType : AttrK → String
  | .basic t => getBasicType t
  | .length t _ => getBasicType t
  | .lengthOf _ => ""
  | .checksum t _ => getBasicType t
  | .fixed _ _ => "string"
  | .dyn => "string"
  | .object _ _ _ => "object"
  | .match_ _ _ _ => "match"

/-- `Field.GetType()`; dereferences the attribute (nil ⇒ panic) and, for objects, `RefPacket` -/
def fieldGetType (s : VState) (attr : Option Nat) (site : String) : Except Crash String :=
  match attr with
  | none => throw (.nilDeref site)
  | some i =>
    match s.attrs[i]? with
    | none => throw (.nilDeref site)
    | some a =>
      match a with
      | .fixed _ _ | .dyn => pure "string"
      | .object _ _ ref =>
        match ref with
        | .none => pure (match a with | .object _ pkt _ => pkt | _ => "")
        | .named n => pure n
        | .inline pid => pure ((s.ipackets[pid]?.map (·.name)).getD "")
      | .match_ _ _ _ => pure "match"
      | a =>
        let t := attrGetType a
        match t.toLower with
        | "string" | "char[]" => pure "string"
        | _ => pure (getBasicType t)

def tyAttr (ty : Ty) (name : String) : V Nat :=
  match ty with
  | .basic t => newAttr (.basic t.text)
  | .fixed kw n _ => do
    if natOfDigits n.text > 2 ^ 31 - 1 then
      addDiag kw.line ("Length of fixed string " ++ name ++ " is out of range: " ++ n.text)
    if kw.kind = .zcharLb then do
      let p ← newPad { ch := "'\x00'", left := false }
      newAttr (.fixed (atoi n.text) (some p))
    else newAttr (.fixed (atoi n.text) none)
  | .dyn _ => newAttr .dyn

def VState.diag (s : VState) (line : Nat) (msg : String) : VState := { s with diags := s.diags ++ [(line, msg)] }

/-- `AddMetaData` as a state function -/
def addMetaS (m : MMeta) (s : VState) : VState :=
  if (findMeta s m.name).isSome then s.diag m.line ("Duplicate metadata definition for " ++ m.name)
  else { s with metas := s.metas ++ [m] }

def addMeta (m : MMeta) : V Unit := modify (addMetaS m)

def optionNames : List String :=
  ["ArrayPrefixLenType", "FixedStringPadChar", "FixedStringPadFromLeft", "GoModule", "GoPackage", "JavaPackage", "LittleEndian", "StringPrefixLenType"]

/-- allowed values per option (`var options` of model.go; note the raw NUL in the pad-char list) -/
def optionValues : String → Option (List String)
  | "StringPrefixLenType" | "ArrayPrefixLenType" => some ["u8", "u16", "u32", "u64"]
  | "LittleEndian" | "FixedStringPadFromLeft" => some ["true", "false"]
  | "JavaPackage" | "GoPackage" | "GoModule" => some []
  | "FixedStringPadChar" => some ["'0'", "' '", "'\x00'", "'\\x00'"]
  | _ => none

/-- `AddOption` as a state function -/
def addOptionS (name value : String) (line : Nat) (s : VState) : VState :=
  match optionValues name with
  | none => s.diag line ("Option " ++ name ++ " is not allowed in this context, Expected one of:" ++ ",".intercalate optionNames)
  | some values =>
    let s1 := if !values.isEmpty && !values.contains value then
        s.diag line ("Option " ++ name ++ " is not allowed to be " ++ value ++ ", Expected one of:" ++ ",".intercalate values)
      else s
    if (s1.options.lookup name).isSome then s1.diag line ("Option " ++ name ++ " is already defined")
    else { s1 with options := s1.options ++ [(name, value)] }

def addOption (name value : String) (line : Nat) : V Unit := modify (addOptionS name value line)

def trimQuotes (s : String) : String :=
  String.ofList (((s.toList.dropWhile (· = '"')).reverse.dropWhile (· = '"')).reverse)

/-- `decimalKey`: an integer key without leading zeros (string keys are kept as written) -/
def keyText (t : Tok) : String :=
  if t.kind = .digits then
    (let s := String.ofList (t.text.toList.dropWhile (· = '0')); if s.isEmpty then "0" else s)
  else t.text

/-- `VisitMatchPair` (digits of a list first, then its strings) -/
def pairsOfMatch (d : MatchDecl) : List MPair :=
  (d.pairs.map fun p =>
    match p.key with
    | .single t => [{ key := keyText t, value := p.target.text, line := p.key.start.line : MPair }]
    | .list _ f rest _ =>
      let items := f :: rest.map (·.2)
      ((items.filter (·.kind = .digits)) ++ (items.filter (·.kind = .string))).map fun t =>
        { key := keyText t, value := p.target.text, line := t.line }).flatten

def docOf : Option Tok → String
  | some t => t.text
  | none => ""

/-- `VisitFieldDefinition` -/
partial def visitFieldDef (fd : FieldDef) : V MField :=
  match fd with
  | .obj rep ft fn _ _ => do
    let s ← get
    let name := match fn with | some n => n.text | none => ft.text
    match findMeta s ft.text with
    | some m => pure { name, attr := m.attr, rep := rep.isSome, line := (rep.getD ft).line }
    | none => do
      let a ← newAttr (.object false ft.text .none)
      pure { name, attr := some a, rep := rep.isSome, line := (rep.getD ft).line }
  | .iner rep name _ fields _ _ => do
    let subs ← fields.mapM visitFieldDef
    -- match fields and length fields inside the inline object
    for (f, fd) in subs.zip fields do
      let s ← get
      match f.attr.bind (s.attrs[·]?), f.attr with
      | some (.match_ (some k) _ pairs), some ai =>
        match subs.reverse.find? (·.name = k) with
        | some kf => modify fun s => { s with attrs := s.attrs.set! ai (.match_ (some k) kf.attr.isSome pairs) }
        | none => addDiag fd.start.line ("Unknown key field " ++ k ++ " for match field " ++ f.name)
      | _, _ => pure ()
      let s ← get
      match f.attr.bind (s.attrs[·]?) with
      | some (.length _ _) => addDiag fd.start.line "LengthOfField can only be declared in the root packet"
      | _ => pure ()
    let s ← get
    -- FieldMap / MatchFields are filled in only when the inline object has a match field
    let mfs := subs.foldl (fun (mfs : List (String × List MPair)) f =>
      match f.attr.bind (s.attrs[·]?) with
      | some (.match_ (some k) _ pairs) => (mfs.filter (·.1 ≠ k)) ++ [(k, pairs)]
      | _ => mfs) []
    let fmap := if mfs.isEmpty then [] else (subs.map (·.name)).eraseDups
    let pid := s.ipackets.size
    set { s with ipackets := s.ipackets.push { name := name.text, root := false, fields := subs, fieldMap := fmap, matchFields := mfs,
                                               line := (rep.getD name).line } }
    let a ← newAttr (.object true name.text (.inline pid))
    pure { name := name.text, attr := some a, rep := rep.isSome, line := (rep.getD name).line }
  | .len d => do
    let s ← get
    let name := d.name.text
    let typ0 := match d.ty with | some t => t.text | none => name
    let typ ← match findMeta s name with
      | some m => match m.attr.bind (s.attrs[·]?) with
        | some a => pure (attrGetType a)
        | none => throw (.nilDeref "VisitLengthFieldDeclaration: MetaData attr")
      | none => do
        -- no type written and no MetaData entry to take it from
        if d.ty.isNone then
          addDiag fd.start.line ("Unknown MetaData type " ++ name ++ " for field " ++ name ++ " declared without a type")
        pure typ0
    let a ← newAttr (.length typ (some d.attr.from_.text))
    pure { name, attr := some a, doc := docOf d.doc, line := fd.start.line }
  | .cks d => do
    let s ← get
    let name := d.name.text
    let typ0 := match d.ty with | some t => t.text | none => name
    let typ ← match findMeta s name with
      | some m => match m.attr.bind (s.attrs[·]?) with
        | some a => pure (attrGetType a)
        | none => throw (.nilDeref "VisitCheckSumFieldDeclaration: MetaData attr")
      | none => do
        -- no type written and no MetaData entry to take it from
        if d.ty.isNone then
          addDiag fd.start.line ("Unknown MetaData type " ++ name ++ " for field " ++ name ++ " declared without a type")
        pure typ0
    let a ← newAttr (.checksum typ d.attr.from_.text)
    pure { name, attr := some a, doc := docOf d.doc, line := fd.start.line }
  | .metaF rep d => do
    let a ← tyAttr d.ty d.name.text
    let doc := match d.doc with | some t => String.ofList ((t.text.toList.drop 1).dropLast) | none => ""
    pure { name := d.name.text, attr := some a, rep := rep.isSome, doc, line := d.ty.start.line }
  | .match_ d _ => do
    -- every key that occurred before is reported at its own line (the pair is kept all the same)
    let _ ← (pairsOfMatch d).foldlM (fun (seen : List String) pr => do
      if seen.contains pr.key then
        addDiag pr.line ("Duplicate match key: " ++ pr.key)
        pure seen
      else pure (pr.key :: seen)) []
    let a ← newAttr (.match_ (some d.key.text) false (pairsOfMatch d))
    pure { name := d.name.text, attr := some a }

/-- `VisitFieldDefinitionWithAttribute` -/
def visitFieldWA (f : FieldWA) : V MField := do
  let fld ← visitFieldDef f.fd
  f.attrs.foldlM (fun (fld : MField) a => do
    match a with
    | .calc c => do
      let t ← fieldGetType (← get) fld.attr "calculatedFrom attribute: f.GetType()"
      let na ← newAttr (.checksum t c.from_.text)
      pure { fld with attr := some na }
    | .len l => do
      let t ← fieldGetType (← get) fld.attr "lengthOf attribute: f.GetType()"
      let na ← newAttr (.length t (some l.from_.text))
      pure { fld with attr := some na }
    | .pad kw _ ch _ => do
      let padChar := match ch with | some c => (if c.text = "'\\x00'" then "'\x00'" else c.text) | none => "' '"
      let s ← get
      match fld.attr.bind (s.attrs[·]?) with
      | some (.fixed n _) => do
        -- the field gets its own copy of the attribute object
        let p ← newPad { ch := padChar, left := (kw.text.splitOn "left").length > 1 }
        let na ← newAttr (.fixed n (some p))
        pure { fld with attr := some na }
      | _ => do
        addDiag kw.line ("Padding attribute is only allowed on char[n] fields, not on field " ++ fld.name)
        pure fld
    | .tag _ n _ => pure { fld with tag := atoi n.text }) fld

def setField (fs : List MField) (i : Nat) (f : MField) : List MField := fs.set i f

/-- `VisitPacketDefinition` -/
def visitPacketDef (p : PacketDef) : V MPacket := do
  let isRoot := p.root.isSome
  let pname := p.name.text
  -- first loop: visit, length-field checks, duplicate check, fields / fieldMap / matchFields
  -- `lenF` = the Go `lengthField` pointer: the field and, when it is in `fields`, its position
  let (fields, lines, lenF, matchFields) ← p.fields.foldlM
    (fun (acc : List MField × List Nat × Option (MField × Option Nat) × List (String × List MPair)) fwa => do
      let (fields, lines, lenF, mfs) := acc
      let fld ← visitFieldWA fwa
      let s ← get
      let isLen := match fld.attr.bind (s.attrs[·]?) with | some (.length _ _) => true | _ => false
      if isLen && !isRoot then
        addDiag fwa.start.line "LengthOfField can only be declared in the root packet"
        pure acc
      else if isLen && lenF.isSome then
        addDiag fwa.start.line "Duplicate LengthOfField declaration"
        pure acc
      else
        let dup := fields.any (·.name = fld.name)
        let lenF := if isLen then some (fld, if dup then none else some fields.length) else lenF
        if dup then
          addDiag fwa.start.line ("Duplicate field definition for " ++ fld.name ++ " in packet " ++ pname)
          pure (fields, lines, lenF, mfs)
        else
          let mfs := match fld.attr.bind (s.attrs[·]?) with
            | some (.match_ (some k) _ pairs) => (mfs.filter (·.1 ≠ k)) ++ [(k, pairs)]
            | _ => mfs
          pure (fields ++ [fld], lines ++ [fwa.start.line], lenF, mfs))
    ([], [], none, [])
  let fieldMap := fields.map (·.name)
  -- the length field's target must exist
  let lenF ← match lenF with
    | some (lf, li) => do
      let s ← get
      match lf.attr.bind (s.attrs[·]?) with
      | some (.length _ (some tname)) =>
        if fieldMap.contains tname then
          -- the slot is reserved where the length field stands and patched after the target: the length field comes first
          match li, fields.findIdx? (·.name = tname) with
          | some i, some j =>
            if j ≤ i then do
              addDiag (lines.getD i 0) ("Field " ++ tname ++ " measured by @lengthOf of field " ++ lf.name ++ " must be declared after it")
              pure none
            else pure lenF
          | _, _ => pure lenF
        else do
          addDiag (match li with | some i => lines.getD i 0 | none => 0) ("Unknown field " ++ tname ++ " for @lengthOf of field " ++ lf.name)
          pure none
      | _ => pure lenF
    | none => pure none
  -- second loop, over the field pointers
  let fieldsArr ← (List.range fields.length).foldlM (fun (fs : List MField) i => do
    let f := fs[i]!
    let s ← get
    let fs ← match lenF with
      | some (lf0, li) =>
        -- the current state of the length field object
        let lf := match li with | some j => fs[j]! | none => lf0
        match lf.attr.bind (s.attrs[·]?) with
        | some (.length _ tgt) =>
          match tgt with
          | none => throw (.nilDeref "lengthField.Attr.TragetField.Name")
          | some tname =>
            if f.name = tname then do
              let lo ← newAttr (.lengthOf lf.name)
              let fs := match li with | some j => setField fs j { fs[j]! with lenAttr := some lo } | none => fs
              pure (setField fs i { fs[i]! with lenAttr := lf.attr })
            else pure fs
        | _ => throw (.assert "lengthField.Attr.(*LengthFieldAttribute)")
      | none => pure fs
    let f := fs[i]!
    let s ← get
    match f.attr.bind (s.attrs[·]?), f.attr with
    | some (.object false pkt _), some ai =>
      let ref := if s.packets.any (·.name = pkt) then RefP.named pkt else RefP.none
      modify fun s => { s with attrs := s.attrs.set! ai (.object false pkt ref) }
      pure fs
    | some (.length _ (some tname)), some _ => do
      let t ← fieldGetType s f.attr "LengthType: f.GetType()"
      let tgt := if fieldMap.contains tname then some tname else none
      let na ← newAttr (.length t tgt)
      pure (setField fs i { f with attr := some na })
    | some (.match_ (some k) _ pairs), some ai =>
      match fs.find? (·.name = k) with
      | some kf =>
        modify fun s => { s with attrs := s.attrs.set! ai (.match_ (some k) kf.attr.isSome pairs) }
        pure fs
      | none => do
        addDiag (lines.getD i 0) ("Unknown key field " ++ k ++ " for match field " ++ f.name)
        pure fs
    | _, _ => pure fs) fields
  pure { name := pname, root := isRoot, lengthField := lenF.map fun (lf, _) => lf.name,
         fields := fieldsArr, fieldMap := fieldMap, matchFields := matchFields, line := p.start.line }

/-- `AddPacket` as a state function -/
def addPacketS (p : MPacket) (s : VState) : VState :=
  if s.packets.any (·.name = p.name) then s.diag p.line ("Duplicate packet definition for " ++ p.name)
  else
    let s1 := { s with packets := s.packets ++ [p] }
    if p.root then
      if s.root.isSome then s1.diag p.line "Multiple root packets are not allowed"
      else { s1 with root := some p.name }
    else s1

def addPacket (p : MPacket) : V Unit := modify (addPacketS p)

/-- `resolveFields`: packet references (inline objects included) and match targets -/
partial def resolveFields (fields : List MField) : V Unit := do
  for f in fields do
    let s ← get
    match f.attr.bind (s.attrs[·]?), f.attr with
    | some (.object iner pkt .none), some ai =>
      if s.packets.any (·.name = pkt) then
        modify fun s => { s with attrs := s.attrs.set! ai (.object iner pkt (.named pkt)) }
      else addDiag f.line ("Unknown packet type " ++ pkt ++ " for field " ++ f.name)
    | some (.object true _ (.inline pid)), _ =>
      match s.ipackets[pid]? with
      | some ip => resolveFields ip.fields
      | none => pure ()
    | some (.match_ _ _ pairs), _ =>
      for pr in pairs do
        let s ← get
        if !(s.packets.any (·.name = pr.value)) then
          addDiag pr.line ("Unknown packet type " ++ pr.value ++ " for match key " ++ pr.key ++ " of field " ++ f.name)
    | _, _ => pure ()

/-- `checkRecursion`: depth-first search over packet references; the first back edge is reported -/
structure RecSt where
  grey : List String := []
  black : List String := []
  report : Option (Nat × String) := none

partial def recVisit (s : VState) (pname : String) (fields : List MField) (st : RecSt) : RecSt :=
  fields.foldl (fun st f =>
    let (st, next) : RecSt × List String := match f.attr.bind (s.attrs[·]?) with
      | some (.object true _ (.inline pid)) =>
        (match s.ipackets[pid]? with | some ip => recVisit s pname ip.fields st | none => st, [])
      | some (.object false _ (.named q)) => (st, [q])
      | some (.match_ _ _ pairs) => (st, (pairs.map (·.value)).filter fun q => s.packets.any (·.name = q))
      | _ => (st, [])
    next.foldl (fun st q =>
      if st.black.contains q then st
      else if st.grey.contains q then
        (if st.report.isSome then st else
          { st with report := some (f.line, "Recursive packet reference: field " ++ f.name ++ " of packet " ++ pname ++ " leads back to packet " ++ q) })
      else
        match s.packets.find? (·.name = q) with
        | some qp =>
          let st := recVisit s q qp.fields { st with grey := q :: st.grey }
          { st with black := q :: st.black }
        | none => st) st) st

def checkRecursion : V Unit := do
  let s ← get
  let st := s.packets.foldl (fun (st : RecSt) p =>
    if st.black.contains p.name || st.grey.contains p.name then st
    else
      let st := recVisit s p.name p.fields { st with grey := p.name :: st.grey }
      { st with black := p.name :: st.black }) {}
  match st.report with
  | some (line, msg) => addDiag line msg
  | none => pure ()

/-- `ResolveDependencies` -/
def resolveDeps : V Unit := do
  let s ← get
  for p in s.packets do
    resolveFields p.fields
  checkRecursion

/-- `VisitPacket` -/
def visitCst (c : Cst) : V Unit := do
  -- MetaData
  for d in c.defs do
    match d with
    | .metaD m =>
      for e in m.entries do
        match e with
        | .decl d =>
          let a ← tyAttr d.ty d.name.text
          addMeta { name := d.name.text, attr := some a, desc := docOf d.doc, line := d.ty.start.line }
        | .ref r =>
          let s ← get
          let attr := (findMeta s r.typ.text).bind (·.attr)
          if (findMeta s r.typ.text).isNone then
            addDiag r.typ.line ("Unknown MetaData type " ++ r.typ.text ++ " for " ++ r.name.text)
          -- a reference to an undeclared entry has no type: it is diagnosed and not registered
          if attr.isSome then
            addMeta { name := r.name.text, attr, desc := docOf r.doc, line := r.typ.line }
    | _ => pure ()
  -- options
  for d in c.defs do
    match d with
    | .opt o =>
      for od in o.decls do
        let value := match od.value with
          | .tok t => if t.kind = .string then trimQuotes t.text else t.text
          | .ty t => t.text
        addOption od.name.text value od.name.line
    | _ => pure ()
  -- packets
  for d in c.defs do
    match d with
    | .packet p => do
      let mp ← visitPacketDef p
      addPacket mp
    | _ => pure ()
  resolveDeps

def run (c : Cst) : Except Crash VState := (visitCst c).run {} |>.map (·.2)

/-- `NewConfiguration` -/
structure MConfig where
  list : String
  str : String
  java : String
  gopkg : String
  gomod : String
  le : Bool
  pad : PadCell
  deriving Repr, Inhabited, DecidableEq

def configOfOptions (opts : List (String × String)) : MConfig :=
  let g := fun k d => (opts.lookup k).getD d
  let fromLeft : Bool := match opts.lookup "FixedStringPadFromLeft" with | some v => v.toLower == "true" | none => false
  let padChar := g "FixedStringPadChar" "' '"
  { list := g "ArrayPrefixLenType" "u16", str := g "StringPrefixLenType" "u16", java := g "JavaPackage" "",
    gopkg := g "GoPackage" "", gomod := g "GoModule" "",
    le := (match opts.lookup "LittleEndian" with | some v => v.toLower == "true" | none => false),
    pad := if fromLeft || padChar ≠ "' '" then { ch := padChar, left := fromLeft } else { ch := "' '", left := false } }

end FinProtoc.Visit
