import Lean.Data.Json
import FinProtoc.IR
/-!
# Loading an extracted program (JSON from `/verif/tv`) into the IR

Member references arrive as identifiers and are resolved here to the position of the
first member declared with that identifier; an identifier that is not a member of the
struct is an error (`unresolved …`), reported by the caller as an ill-scoped program.
-/
namespace FinProtoc.Load
open Lean FinProtoc FinProtoc.IR

abbrev R := Except String

def arr (j : Json) : R (Array Json) := j.getArr?
def str (j : Json) : R String := j.getStr?
def nat (j : Json) : R Nat := j.getNat?
def bool (j : Json) : R Bool := j.getBool?

def idx (a : Array Json) (i : Nat) : R Json :=
  match a[i]? with | some x => pure x | none => throw s!"missing element {i}"

def padJ (j : Json) : R (Option Pad) :=
  if j.isNull then pure none else do
    let a ← arr j
    let ch ← nat (← idx a 0)
    let left ← bool (← idx a 1)
    pure (some { ch := UInt8.ofNat ch, left })

def cmJ (j : Json) : R CountMode := do
  let s ← str j
  if s = "u" then pure .unsigned else if s = "s" then pure .signedPos else throw s!"bad count mode {s}"

def elemJ (j : Json) : R Elem := do
  let a ← arr j
  let tag ← str (← idx a 0)
  match tag with
  | "scalar" => pure (.scalar (← nat (← idx a 1)) (← bool (← idx a 2)))
  | "string" => pure (.string (← nat (← idx a 1)) (← bool (← idx a 2)) (← cmJ (← idx a 3)))
  | "fixed" => pure (.fixed (← nat (← idx a 1)) (← padJ (← idx a 2)))
  | "object" => pure (.object (← str (← idx a 1)))
  | t => throw s!"bad elem {t}"

def resolve (sname : String) (members : List Member) (id : String) : R Nat :=
  let i := members.findIdx (·.ident = id)
  if i < members.length then pure i else throw s!"unresolved member {id} in {sname}"

def estepJ (sname : String) (ms : List Member) (j : Json) : R EStep := do
  let a ← arr j
  let tag ← str (← idx a 0)
  let mem := fun (k : Nat) => do resolve sname ms (← str (← idx a k))
  match tag with
  | "scalar" => pure (.scalar (← nat (← idx a 1)) (← bool (← idx a 2)) (← mem 3))
  | "string" => pure (.string (← nat (← idx a 1)) (← bool (← idx a 2)) (← mem 3))
  | "fixed" => pure (.fixed (← nat (← idx a 1)) (← padJ (← idx a 2)) (← mem 3))
  | "list" => pure (.list (← nat (← idx a 1)) (← bool (← idx a 2)) (← elemJ (← idx a 3)) (← mem 4))
  | "object" => pure (.object (← str (← idx a 1)) (← mem 2))
  | "dynamic" => pure (.dynamic (← mem 1))
  | "mark" => pure (.mark (← str (← idx a 1)))
  | "slot" => pure (.slot (← nat (← idx a 1)) (← bool (← idx a 2)) (← str (← idx a 3)))
  | "patch" =>
    let sl ← idx a 6
    pure (.patch (← nat (← idx a 1)) (← bool (← idx a 2)) (← str (← idx a 3)) (← str (← idx a 4)) (← str (← idx a 5))
      (if sl.isNull then none else sl.getNat?.toOption))
  | "checksum" => pure (.checksum (← str (← idx a 1)) (← nat (← idx a 2)) (← bool (← idx a 3)) (← mem 4))
  | "skip" => pure (.skip (← str (← idx a 1)))
  | t => throw s!"bad enc step {t}"

def dstepJ (sname : String) (ms : List Member) (j : Json) : R DStep := do
  let a ← arr j
  let tag ← str (← idx a 0)
  let mem := fun (k : Nat) => do resolve sname ms (← str (← idx a k))
  match tag with
  | "scalar" => pure (.scalar (← nat (← idx a 1)) (← bool (← idx a 2)) (← mem 3))
  | "string" => pure (.string (← nat (← idx a 1)) (← bool (← idx a 2)) (← cmJ (← idx a 3)) (← mem 4))
  | "fixed" => pure (.fixed (← nat (← idx a 1)) (← padJ (← idx a 2)) (← mem 3))
  | "list" => pure (.list (← nat (← idx a 1)) (← bool (← idx a 2)) (← cmJ (← idx a 3)) (← elemJ (← idx a 4)) (← mem 5))
  | "object" => pure (.object (← str (← idx a 1)) (← mem 2))
  | "dispatch" => pure (.dispatch (← mem 1) (← str (← idx a 2)) (← mem 3))
  | "skip" => pure (.skip (← str (← idx a 1)))
  | t => throw s!"bad dec step {t}"

def keyJ (j : Json) : R Key := do
  let a ← arr j
  let tag ← str (← idx a 0)
  if tag = "i" then pure (.int (← nat (← idx a 1)))
  else pure (.str (← str (← idx a 1)).toUTF8.toList)

def structJ (j : Json) : R Struct := do
  let name ← str (← j.getObjVal? "name")
  let ms ← (← arr (← j.getObjVal? "members")).toList.mapM fun m => do
    pure ({ ident := ← str (← m.getObjVal? "id"), ty := ← str (← m.getObjVal? "ty") } : Member)
  let enc ← (← arr (← j.getObjVal? "enc")).toList.mapM (estepJ name ms)
  let dec ← (← arr (← j.getObjVal? "dec")).toList.mapM (dstepJ name ms)
  pure { name, members := ms, enc, dec }

def tableJ (j : Json) : R Table := do
  let name ← str (← j.getObjVal? "name")
  let entries ← (← arr (← j.getObjVal? "entries")).toList.mapM fun e => do
    let a ← arr e
    pure (← keyJ (← idx a 0), ← str (← idx a 1))
  let kw := (j.getObjVal? "keyWidth").toOption.bind fun x => x.getNat?.toOption
  let eom ← bool (← j.getObjVal? "errOnMiss")
  pure { name, entries, keyWidth := kw, errOnMiss := eom }

def progJ (j : Json) : R Prog := do
  let structs ← (← arr (← j.getObjVal? "structs")).toList.mapM structJ
  let tables ← (← arr (← j.getObjVal? "tables")).toList.mapM tableJ
  pure { structs, tables }

partial def valJ (j : Json) : R Val := do
  let a ← arr j
  let tag ← str (← idx a 0)
  match tag with
  | "i" => pure (.int (← nat (← idx a 1)))
  | "s" => pure (.str ((← arr (← idx a 1)).toList.filterMap fun b => b.getNat?.toOption |>.map UInt8.ofNat))
  | "l" => pure (.list (← (← arr (← idx a 1)).toList.mapM valJ))
  | "t" => pure (.struct (← (← arr (← idx a 1)).toList.mapM valJ))
  | "d" => pure (.dyn (← str (← idx a 1)) (← (← arr (← idx a 2)).toList.mapM valJ))
  | t => throw s!"bad val {t}"

partial def valToJ : Val → Json
  | .int n => Json.arr #["i", n]
  | .str bs => Json.arr #["s", Json.arr (bs.map fun b => (b.toNat : Json)).toArray]
  | .list vs => Json.arr #["l", Json.arr (vs.map valToJ).toArray]
  | .struct vs => Json.arr #["t", Json.arr (vs.map valToJ).toArray]
  | .dyn p vs => Json.arr #["d", p, Json.arr (vs.map valToJ).toArray]

def bytesJ (bs : Bytes) : Json := Json.arr (bs.map fun b => (b.toNat : Json)).toArray

end FinProtoc.Load
