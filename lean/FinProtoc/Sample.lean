import FinProtoc.Spec
/-!
# Message sampler (search support only — nothing here is part of a proof)

Produces well-typed messages of a packet from a seed: boundary bit patterns per width,
empty/short/multi-byte strings, lists of length 0–3, every payload alternative, garbage in
caller-supplied length and checksum members.  Match key members are set to the key of the
alternative chosen for the payload so that decoders can dispatch.
-/
namespace FinProtoc.Sample
open FinProtoc

def nextR (s : Nat) : Nat := (s * 6364136223846793005 + 1442695040888963407) % 2 ^ 64
def pick (s n : Nat) : Nat × Nat := let s' := nextR s; ((s' / 2 ^ 33) % (max n 1), s')

def intCands (w : Nat) : List Nat :=
  let m := 256 ^ w
  [0, 1, m - 1, m / 2, m / 2 - 1, 0x0102030405060708 % m, 0xA1B2C3D4E5F60718 % m, 200 % m, 40000 % m]

def strCands : List Bytes :=
  ["".toUTF8.toList, "A".toUTF8.toList, "hello".toUTF8.toList, "é€".toUTF8.toList, "a b0".toUTF8.toList,
   (String.ofList (List.replicate 130 (Char.ofNat 120))).toUTF8.toList, "Zz9".toUTF8.toList]

def fixedCands (n : Nat) : List Bytes :=
  [[], (List.replicate n (65 : UInt8)), (List.replicate (n / 2) (66 : UInt8)), (List.replicate (min n 1) (67 : UInt8)),
   ((List.replicate n (68 : UInt8)).take (n - 1))]

partial def genVal (S : Schema) (depth : Nat) (k : FKind) (s : Nat) : Val × Nat :=
  match k with
  | .scalar t => let (i, s) := pick s (intCands t.width).length; (.int ((intCands t.width).getD i 0), s)
  | .lengthOf t _ => let (i, s) := pick s (intCands t.width).length; (.int ((intCands t.width).getD i 0), s)
  | .checksum t _ => let (i, s) := pick s (intCands t.width).length; (.int ((intCands t.width).getD i 0), s)
  | .fixed n _ => let (i, s) := pick s (fixedCands n).length; (.str ((fixedCands n).getD i []), s)
  | .dyn =>
    -- lengths in the upper half of the prefix range expose decoders that read the count signed
    let long : List Bytes := if S.cfg.strPfx.width = 1 then [List.replicate 200 121] else if S.cfg.strPfx.width = 2 then [List.replicate 33000 121] else []
    let c := strCands ++ long
    let (i, s) := pick s c.length; (.str (c.getD i []), s)
  | .obj pkt =>
    match S.find pkt with
    | some p => let (vs, s) := genFields S (depth - 1) p.fields [] s; (.struct vs, s)
    | none => (.struct [], s)
  | .matchOn _ pairs =>
    let (i, s) := pick s pairs.length
    match pairs[i]? with
    | some (_, pkt) =>
      match S.find pkt with
      | some p => let (vs, s) := genFields S (depth - 1) p.fields [] s; (.dyn pkt vs, s)
      | none => (.dyn pkt [], s)
    | none => (.dyn "" [], s)
where
  genFields (S : Schema) (depth : Nat) (fs : List Field) (_keys : List (String × Key)) (s : Nat) : List Val × Nat :=
    -- first pass: generate every field; second pass: make key members consistent with payloads
    let (vs, s) := fs.foldl (fun (acc, s) f =>
      if f.rep then
        let (n0, s) := pick s (if depth = 0 then 1 else 6)
        let small := match f.kind with | .scalar _ => true | .dyn => true | .fixed _ _ => true | _ => false
        let n := if n0 < 4 then n0 else if !small then 2 else if S.cfg.listPfx.width = 1 then 130 else 3
        let (es, s) := (List.range n).foldl (fun (es, s) _ => let (v, s) := genVal S depth f.kind s; (es ++ [v], s)) ([], s)
        (acc ++ [Val.list es], s)
      else
        let (v, s) := genVal S depth f.kind s
        (acc ++ [v], s)) ([], s)
    let fixes : List (String × Val) := (fs.zip vs).filterMap fun (f, v) =>
      match f.kind, v with
      | .matchOn key pairs, .dyn pkt _ =>
        -- any of the keys that map to the chosen packet (all members of a key list get exercised)
        let cands := pairs.filter (·.2 = pkt)
        match cands[(s / 7) % (max cands.length 1)]? with
        | some (.int n, _) => some (key, Val.int n)
        | some (.str b, _) => some (key, Val.str b)
        | none => none
      | _, _ => none
    ((fs.zip vs).map fun (f, v) => match fixes.lookup f.name with | some kv => kv | none => v, s)

def genPacket (S : Schema) (pkt : String) (seed : Nat) : Option (List Val) :=
  (S.find pkt).map fun p => (genVal.genFields S 4 p.fields [] (nextR (seed + 12345))).1

end FinProtoc.Sample
