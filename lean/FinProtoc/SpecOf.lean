import FinProtoc.Spec
import FinProtoc.Dsl.Cst
/-!
# `specOf`: the declarative reading of a parsed DSL

The oracle's reading, written without looking at how the Go visitor does it:
aliases collapse, `zchar[n]` is `char[n]` padded with NUL on the right, an omitted pad
inherits the configured one (default: space on the right), a MetaData-typed field has the
MetaData entry's type, key lists expand to pairs, inline and prefixed
`@lengthOf/@calculatedFrom` are the same field, inline objects become packets of their own.
-/
namespace FinProtoc
open FinProtoc.Dsl

def natOfDigits (s : String) : Nat := s.toList.foldl (fun n c => 10 * n + (c.toNat - '0'.toNat)) 0

def padCharByte (tokText : String) : Option UInt8 :=
  if tokText = "'0'" then some 48 else if tokText = "' '" then some 32
  else if tokText = "'\\x00'" then some 0 else none

def stripQuotes (s : String) : String := String.ofList ((s.toList.drop 1).dropLast)

def scalarOfTok (t : Tok) : Option Scalar := Scalar.ofName? t.text

/-- declared type of a MetaData entry / typed field, before padding is resolved -/
inductive DTy
  | scalar (t : Scalar)
  | fixed (n : Nat) (z : Bool)
  | dyn
  deriving Repr, Inhabited, DecidableEq

def dtyOf : Ty → Option DTy
  | .basic t => (scalarOfTok t).map .scalar
  | .fixed kw n _ => some (.fixed (natOfDigits n.text) (kw.kind == .zcharLb))
  | .dyn _ => some .dyn

/-- `strings.Trim(value, "\"")` -/
def trimDQuotes (s : String) : String :=
  String.ofList (((s.toList.dropWhile (· = '"')).reverse.dropWhile (· = '"')).reverse)

/-- the value of an option: the text of its value, a STRING token without its surrounding double quotes
(`LittleEndian = "true";` means `LittleEndian = true;`) -/
def optValueText (d : OptDecl) : String :=
  match d.value with
  | .tok t => if t.kind = .string then trimDQuotes t.text else t.text
  | .ty t => t.text

def optionsOf (c : Cst) : List (String × String) :=
  (c.defs.filterMap fun d => match d with
    | .opt o => some (o.decls.map fun d => (d.name.text, optValueText d))
    | _ => none).flatten

def configOf (opts : List (String × String)) : Config :=
  let get := fun k => opts.lookup k
  let sc := fun k (d : Scalar) => match get k with | some v => (Scalar.ofName? v).getD d | none => d
  { le := get "LittleEndian" = some "true",
    strPfx := sc "StringPrefixLenType" .u16,
    listPfx := sc "ArrayPrefixLenType" .u16,
    pad := { ch := match get "FixedStringPadChar" with | some v => (padCharByte v).getD 32 | none => 32,
             left := get "FixedStringPadFromLeft" = some "true" } }

/-- MetaData entries in order; a reference entry takes the type of the entry it names -/
def metasOf (c : Cst) : List (String × DTy) :=
  let entries := (c.defs.filterMap fun d => match d with | .metaD m => some m.entries | _ => none).flatten
  entries.foldl (fun acc e =>
    match e with
    | .decl d => match dtyOf d.ty with | some t => acc ++ [(d.name.text, t)] | none => acc
    | .ref r => match acc.lookup r.typ.text with | some t => acc ++ [(r.name.text, t)] | none => acc) []

def padOfAttrs (attrs : List Attr) : Option Pad :=
  attrs.foldl (fun acc a => match a with
    | .pad kw _ ch _ =>
      some { ch := match ch with | some c => (padCharByte c.text).getD 32 | none => 32,
             left := (kw.text.splitOn "left").length > 1 }
    | _ => acc) none

def kindOfDTy (cfg : Config) (pad : Option Pad) : DTy → FKind
  | .scalar t => .scalar t
  | .fixed n z => .fixed n (match pad with | some p => p | none => if z then { ch := 0, left := false } else cfg.pad)
  | .dyn => .dyn

def keyOfTok (t : Tok) : Key :=
  if t.kind = .digits then .int (natOfDigits t.text) else .str (stripQuotes t.text).toUTF8.toList

def pairsOf (d : MatchDecl) : List (Key × String) :=
  (d.pairs.map fun p => match p.key with
    | .single t => [(keyOfTok t, p.target.text)]
    | .list _ f rest _ => (f :: rest.map (·.2)).map fun t => (keyOfTok t, p.target.text)).flatten

def lenAttrOf (attrs : List Attr) : Option String :=
  attrs.foldl (fun acc a => match a with | .len l => some l.from_.text | _ => acc) none
def calcAttrOf (attrs : List Attr) : Option String :=
  attrs.foldl (fun acc a => match a with | .calc l => some l.from_.text | _ => acc) none

/-- a scalar type given explicitly, or through a MetaData entry of the field's own name -/
def scalarFor (metas : List (String × DTy)) (ty : Option Ty) (name : String) : Option Scalar :=
  match ty with
  | some t => match dtyOf t with | some (.scalar s) => some s | _ => none
  | none => match metas.lookup name with | some (.scalar s) => some s | _ => none

mutual
/-- a field definition ↦ its field, plus the packets lifted out of inline objects -/
def fieldOf (cfg : Config) (metas : List (String × DTy)) (attrs : List Attr) : FieldDef → Option (Field × List Packet)
  | .iner rep name _ fields _ _ => do
    let (fs, ps) ← fieldsOf cfg metas fields
    pure ({ name := name.text, kind := .obj name.text, rep := rep.isSome },
          { name := name.text, fields := fs } :: ps)
  | .metaF rep d => do
    let t ← dtyOf d.ty
    let k := kindOfDTy cfg (padOfAttrs attrs) t
    let k := match k, lenAttrOf attrs, calcAttrOf attrs with
      | .scalar s, some target, _ => FKind.lengthOf s target
      | .scalar s, none, some algo => FKind.checksum s algo
      | k, _, _ => k
    pure ({ name := d.name.text, kind := k, rep := rep.isSome }, [])
  | .obj rep ft fn _ _ =>
    let name := match fn with | some n => n.text | none => ft.text
    match metas.lookup ft.text with
    | some t =>
      let k := kindOfDTy cfg (padOfAttrs attrs) t
      let k := match k, lenAttrOf attrs, calcAttrOf attrs with
        | .scalar s, some target, _ => FKind.lengthOf s target
        | .scalar s, none, some algo => FKind.checksum s algo
        | k, _, _ => k
      some ({ name, kind := k, rep := rep.isSome }, [])
    | none => some ({ name, kind := .obj ft.text, rep := rep.isSome }, [])
  | .len d => do
    let s ← scalarFor metas d.ty d.name.text
    pure ({ name := d.name.text, kind := .lengthOf s d.attr.from_.text }, [])
  | .cks d => do
    let s ← scalarFor metas d.ty d.name.text
    pure ({ name := d.name.text, kind := .checksum s d.attr.from_.text }, [])
  | .match_ d _ => some ({ name := d.name.text, kind := .matchOn d.key.text (pairsOf d) }, [])
def fieldsOf (cfg : Config) (metas : List (String × DTy)) : List FieldDef → Option (List Field × List Packet)
  | [] => some ([], [])
  | f :: fs => do
    let (a, pa) ← fieldOf cfg metas [] f
    let (b, pb) ← fieldsOf cfg metas fs
    pure (a :: b, pa ++ pb)
end

def packetOf (cfg : Config) (metas : List (String × DTy)) (p : PacketDef) : Option (List Packet) := do
  let rs ← p.fields.mapM fun f => fieldOf cfg metas f.attrs f.fd
  pure ({ name := p.name.text, root := p.root.isSome, fields := rs.map (·.1) } :: (rs.map (·.2)).flatten)

def specOf (c : Cst) : Option Schema := do
  let cfg := configOf (optionsOf c)
  let metas := metasOf c
  let pss ← (c.defs.filterMap fun d => match d with | .packet p => some p | _ => none).mapM (packetOf cfg metas)
  pure { cfg, packets := pss.flatten }

end FinProtoc
