import Lean.Data.Json
import FinProtoc.Visit
/-!
# Canonical dump of the visitor model — same shape as the Go harness's `dumpModel`
(pointer identities become first-occurrence numbers in one fixed traversal order).
-/
namespace FinProtoc.Visit
open Lean

def kv (k : String) (v : Json) : String × Json := (k, v)

structure DumpSt where
  attrIds : List (Nat × Nat) := []
  padIds : List (Nat × Nat) := []

abbrev D := StateM DumpSt

def padJ (s : VState) (p : Option Nat) : D Json :=
  match p with
  | none => pure Json.null
  | some i => do
    let st ← get
    let id ← match st.padIds.lookup i with
      | some id => pure id
      | none => do
        let id := st.padIds.length
        set { st with padIds := st.padIds ++ [(i, id)] }
        pure id
    let c := s.pads[i]!
    pure (Json.mkObj [("id", id), ("ch", c.ch), ("left", c.left)])

def pairsJ (ps : List MPair) : Json :=
  Json.arr (ps.map fun p => Json.arr #[p.key, p.value, p.line]).toArray

mutual
partial def attrJ (s : VState) (a : Option Nat) : D Json :=
  match a with
  | none => pure Json.null
  | some i => do
    if s.attrs[i]! == .dyn then return Json.mkObj [kv "k" "dyn"]
    let st ← get
    let (id, seen) ← match st.attrIds.lookup i with
      | some id => pure (id, true)
      | none => do
        let id := st.attrIds.length
        set { st with attrIds := st.attrIds ++ [(i, id)] }
        pure (id, false)
    let base : List (String × Json) := [kv "id" id]
    match s.attrs[i]! with
    | .basic t => pure (Json.mkObj (base ++ [kv "k" ("basic"), kv "type" (t)]))
    | .length t tgt => pure (Json.mkObj (base ++ [kv "k" ("length"), kv "type" (t), kv "target" (match tgt with | some x => Json.str x | none => Json.null)]))
    | .lengthOf f => pure (Json.mkObj (base ++ [kv "k" ("lengthOf"), kv "field" (f)]))
    | .checksum t al => pure (Json.mkObj (base ++ [kv "k" ("checksum"), kv "type" (t), kv "algo" (al)]))
    | .fixed n p => do
      let pj ← padJ s p
      pure (Json.mkObj (base ++ [kv "k" ("fixed"), kv "n" (n), kv "pad" (pj)]))
    | .dyn => pure (Json.mkObj (base ++ [kv "k" ("dyn")]))
    | .object iner pkt ref => do
      let rj ← match ref with
        | .none => pure Json.null
        | .named n => pure (Json.str n)
        | .inline pid => if seen then pure (Json.str "<seen>") else packetJ s (s.ipackets[pid]!)
      pure (Json.mkObj (base ++ [kv "k" ("object"), kv "iner" (iner), kv "packet" (pkt), kv "ref" (rj)]))
    | .match_ key res pairs =>
      match key with
      | some k => pure (Json.mkObj (base ++ [kv "k" ("match"), kv "key" (k), kv "keyResolved" (res), kv "pairs" (pairsJ pairs)]))
      | none => pure (Json.mkObj (base ++ [kv "k" ("match"), kv "key" (Json.null), kv "pairs" (pairsJ pairs)]))
partial def fieldJ (s : VState) (f : MField) : D Json := do
  let a ← attrJ s f.attr
  let l ← attrJ s f.lenAttr
  pure (Json.mkObj [("name", f.name), ("repeat", f.rep), ("doc", f.doc), ("tag", f.tag), ("line", f.line), ("attr", a), ("lenAttr", l)])
partial def packetJ (s : VState) (p : MPacket) : D Json := do
  let fs ← p.fields.mapM (fieldJ s)
  let mfs := p.matchFields.toArray.qsort (fun a b => a.1 < b.1) |>.toList
  pure (Json.mkObj [("name", p.name), ("root", p.root), ("line", p.line),
    ("lengthField", match p.lengthField with | some n => Json.str n | none => Json.null),
    ("fields", Json.arr fs.toArray),
    ("matchFields", Json.mkObj (mfs.map fun (k, ps) => (k, pairsJ ps))),
    ("fieldMap", Json.arr ((p.fieldMap.toArray.qsort (· < ·)).map Json.str))])
end

def dumpJ (s : VState) : Json :=
  let act : D Json := do
    let pk ← s.packets.mapM (packetJ s)
    let metas := s.metas.toArray.qsort (fun a b => a.name < b.name) |>.toList
    let md ← metas.mapM fun m => do
      let a ← attrJ s m.attr
      pure (Json.mkObj [("name", m.name), ("attr", a), ("desc", m.desc), ("line", m.line)])
    let cfg := configOfOptions s.options
    -- the configuration's padding object is distinct from every attribute's padding
    let st ← get
    let cpad := Json.mkObj [("id", st.padIds.length), ("ch", cfg.pad.ch), ("left", cfg.pad.left)]
    pure (Json.mkObj [
      ("options", Json.mkObj (s.options.map fun (k, v) => (k, Json.str v))),
      ("config", Json.mkObj [("list", cfg.list), ("str", cfg.str), ("java", cfg.java), ("gopkg", cfg.gopkg), ("gomod", cfg.gomod),
                             ("le", cfg.le), ("pad", cpad)]),
      ("metadata", Json.arr md.toArray),
      ("packets", Json.arr pk.toArray),
      ("packetsMap", Json.arr ((s.packets.map (·.name)).toArray.qsort (· < ·) |>.map Json.str)),
      ("root", match s.root with | some r => Json.str r | none => Json.null),
      ("diags", Json.arr (s.diags.map fun (l, m) => Json.arr #[l, m]).toArray)])
  (act.run {}).1

end FinProtoc.Visit
