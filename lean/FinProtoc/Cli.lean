/-!
# Model of the command-line wrappers (`cmd/root.go`, `cmd/format.go`, `cmd/lib.go`)

An abstract I/O world: standard output, a file store, an exit status.  The library functions are
parameters (`fmt : String → Option String` is `FormatPacketDsl`: `none` = syntax error).
-/
namespace FinProtoc.Cli

structure World where
  stdout : String := ""
  files : List (String × String) := []
  exit : Nat := 0
  deriving Repr, DecidableEq

def World.read (w : World) (path : String) : Option String := w.files.lookup path
def World.write (w : World) (path content : String) : World :=
  { w with files := (path, content) :: w.files.filter (·.1 ≠ path) }
def World.println (w : World) (s : String) : World := { w with stdout := w.stdout ++ s ++ "\n" }

/-- the sub-commands registered on the root command when `Execute` inspects `os.Args` -/
def subcommands : List String := ["compile", "format"]

/-- `Execute`: no argument ⇒ `--help`; a first argument that is not a sub-command ⇒ `compile` is inserted -/
def rewriteArgs : List String → List String
  | [] => ["--help"]
  | a :: rest => if a ∈ subcommands then a :: rest else "compile" :: a :: rest

/-- the `format` sub-command with `-d dsl` and/or `-f file` (empty string = flag absent) -/
def runFormat (fmt : String → Option String) (dsl file : String) (w : World) : World :=
  let input : Except World String :=
    if dsl ≠ "" then .ok dsl
    else if file ≠ "" then
      match w.read file with
      | some t => .ok t
      | none => .error { (w.println "Error reading file: …") with exit := 1 }
    else .error { (w.println "Please provide a DSL string or a file path") with exit := 1 }
  match input with
  | .error w' => w'
  | .ok t =>
    match fmt t with
    | none => { (w.println "Error formatting DSL: …") with exit := 1 }
    | some r => if file ≠ "" then w.write file r else w.println r

/-- `FormatPacketDslExport` -/
def exportFormat (fmt : String → Option String) (dsl : String) : String :=
  match fmt dsl with
  | some r => r
  | none => "Error:" ++ "syntax errors found: …"

end FinProtoc.Cli

/-! ## `compile` (`cmd/compile.go`, `WriteCodeToFile` of `common.go`)

A generator is seen through its result: the file map it returns (names relative to the target's output
directory) or an error.  `os.Create` truncates, so a write replaces the whole content of the path. -/
namespace FinProtoc.Cli

structure Target where
  lang : String
  path : String                                   -- "" = flag absent: the target is not requested
  gen : Except String (List (String × String))    -- the generator's file map, in the order the map range yields it
  deriving Repr

def outPath (dir name : String) : String := dir ++ "/" ++ name

/-- `WriteCodeToFile`: every entry of the map is created (truncated) and written, one line is printed per file -/
def writeCode (dir : String) (files : List (String × String)) (w : World) : World :=
  files.foldl (fun w f => (w.write (outPath dir f.1) f.2).println ("Generated code for packet: " ++ outPath dir f.1)) w

/-- the loop over the generator table of `Compile`: the first failing generator ends the run with exit status 1 -/
def runTargets : List Target → World → World
  | [], w => w
  | t :: ts, w =>
    if t.path = "" then runTargets ts w
    else match t.gen with
      | .error e => { (w.println ("failed to generate " ++ t.lang ++ " code: " ++ e)) with exit := 1 }
      | .ok files => runTargets ts (writeCode t.path files w)

/-- `Compile`: a text with diagnostics (syntax errors, semantic errors) never reaches a generator -/
def runCompile (diags : List String) (targets : List Target) (w : World) : World :=
  if diags.isEmpty then runTargets targets w
  else { (diags.foldl (fun w d => w.println d) w).println ("found " ++ toString diags.length ++ " syntax errors") with exit := 1 }

end FinProtoc.Cli
