/-!
# Model of the command-line wrappers (`cmd/root.go`, `cmd/format.go`, `cmd/lib.go`)

An abstract I/O world: standard output, a file store, an exit status.  The library functions are
parameters (`fmt : String → Option String` is `FormatPacketDsl`: `none` = syntax error).
-/
namespace FinProtoc.Cli

structure World where
  stdout : String := ""
  files : List (String × String) := []
  exit : Nat := 0
  deriving Repr, DecidableEq

def World.read (w : World) (path : String) : Option String := w.files.lookup path
def World.write (w : World) (path content : String) : World :=
  { w with files := (path, content) :: w.files.filter (·.1 ≠ path) }
def World.println (w : World) (s : String) : World := { w with stdout := w.stdout ++ s ++ "\n" }

/-- the sub-commands registered on the root command when `Execute` inspects `os.Args` -/
def subcommands : List String := ["compile", "format"]

/-- `Execute`: no argument ⇒ `--help`; a first argument that is not a sub-command ⇒ `compile` is inserted -/
def rewriteArgs : List String → List String
  | [] => ["--help"]
  | a :: rest => if a ∈ subcommands then a :: rest else "compile" :: a :: rest

/-- the `format` sub-command with `-d dsl` and/or `-f file` (empty string = flag absent) -/
def runFormat (fmt : String → Option String) (dsl file : String) (w : World) : World :=
  let input : Except World String :=
    if dsl ≠ "" then .ok dsl
    else if file ≠ "" then
      match w.read file with
      | some t => .ok t
      | none => .error { (w.println "Error reading file: …") with exit := 1 }
    else .error { (w.println "Please provide a DSL string or a file path") with exit := 1 }
  match input with
  | .error w' => w'
  | .ok t =>
    match fmt t with
    | none => { (w.println "Error formatting DSL: …") with exit := 1 }
    | some r => if file ≠ "" then w.write file r else w.println r

/-- `FormatPacketDslExport` -/
def exportFormat (fmt : String → Option String) (dsl : String) : String :=
  match fmt dsl with
  | some r => r
  | none => "Error:" ++ "syntax errors found: …"

end FinProtoc.Cli
