import FinProtoc.Conforms
/-!
# Explanations for a failed validator (reporting only; nothing is proved about these)

`explainEnc/explainDec` re-walk the same alignment as `confEnc/confDec` and say *where* and
*in which attribute* a step deviates.  The driver cross-checks `explain = [] ↔ conf = true`
on every program, so the two cannot drift apart silently.
-/
namespace FinProtoc.Explain
open FinProtoc FinProtoc.IR FinProtoc.Conforms FinProtoc.Wire

structure Reason where
  side : String       -- enc | dec
  packet : String
  field : String
  kind : String       -- field kind (scalar, fixed, dyn, obj, match, length, checksum) + "[]" when repeated
  attr : String       -- which attribute deviates
  expected : String
  got : String
  deriving Repr, Inhabited

def kindName (f : Field) : String :=
  (match f.kind with
   | .scalar .char => "char" | .scalar _ => "scalar" | .fixed _ _ => "fixed" | .dyn => "dyn" | .obj _ => "obj"
   | .matchOn _ _ => "match" | .lengthOf _ _ => "length" | .checksum _ _ => "checksum")
  ++ (if f.rep then "[]" else "")

def padStr : Option Pad → String
  | none => "default"
  | some p => s!"({p.ch.toNat},{if p.left then "left" else "right"})"

def elemStr : Elem → String
  | .scalar w le => s!"scalar(w={w},le={le})"
  | .string pw le cm => s!"string(pw={pw},le={le},{if cm = .unsigned then "unsigned" else "signed>0"})"
  | .fixed n pad => s!"fixed(n={n},pad={padStr pad})"
  | .object ty => s!"object({ty})"

def estepStr : EStep → String
  | .scalar w le j => s!"scalar(w={w},le={le},member#{j})"
  | .string pw le j => s!"string(pw={pw},le={le},member#{j})"
  | .fixed n pad j => s!"fixed(n={n},pad={padStr pad},member#{j})"
  | .list pw le e j => s!"list(pw={pw},le={le},{elemStr e},member#{j})"
  | .object ty j => s!"object({ty},member#{j})"
  | .dynamic j => s!"dynamic(member#{j})"
  | .mark v => s!"mark({v})"
  | .slot w le pv => s!"slot(w={w},le={le},{pv})"
  | .patch w le pv sv ev sl => s!"patch(w={w},le={le},{pv},{sv},{ev},slice={sl})"
  | .checksum a w le j => s!"checksum({a},w={w},le={le},member#{j})"
  | .skip n => s!"skip({n})"

def dstepStr : DStep → String
  | .scalar w le j => s!"scalar(w={w},le={le},member#{j})"
  | .string pw le cm j => s!"string(pw={pw},le={le},{if cm = .unsigned then "unsigned" else "signed>0"},member#{j})"
  | .fixed n pad j => s!"fixed(n={n},pad={padStr pad},member#{j})"
  | .list pw le cm e j => s!"list(pw={pw},le={le},{if cm = .unsigned then "unsigned" else "signed>0"},{elemStr e},member#{j})"
  | .object ty j => s!"object({ty},member#{j})"
  | .dispatch k t j => s!"dispatch(key#{k},{t},member#{j})"
  | .skip n => s!"skip({n})"

/-- which attribute of an element codec deviates -/
def elemAttr (S : Schema) (k : FKind) (e : Elem) (dec : Bool) : String :=
  match k, e with
  | .scalar t, .scalar w le => if w ≠ t.width then "width" else if !leOk S w le then "le" else "?"
  | .dyn, .string pw le cm => if pw ≠ S.cfg.strPfx.width then "strpfx" else if !leOk S pw le then "le"
      else if dec && cm ≠ .unsigned then "count" else "?"
  | .fixed n p, .fixed n' pad => if n ≠ n' then "n" else if !padArgOk p pad then "pad" else "?"
  | .obj pkt, .object ty => if ty ≠ pkt then "type" else "?"
  | _, _ => "shape"

def eAttr (S : Schema) (i : Nat) (f : Field) (st : EStep) : String :=
  if f.rep then
    match st with
    | .list pw le e j => if pw ≠ S.cfg.listPfx.width then "listpfx" else if !leOk S pw le then "le"
        else if j ≠ i then "member" else "elem." ++ elemAttr S f.kind e false
    | .skip _ => "skipped"
    | _ => "shape"
  else
    match f.kind, st with
    | .scalar t, .scalar w le j => if w ≠ t.width then "width" else if !leOk S w le then "le" else if j ≠ i then "member" else "?"
    | .fixed n p, .fixed n' pad j => if n' ≠ n then "n" else if !padArgOk p pad then "pad" else if j ≠ i then "member" else "?"
    | .dyn, .string pw le j => if pw ≠ S.cfg.strPfx.width then "strpfx" else if !leOk S pw le then "le" else if j ≠ i then "member" else "?"
    | .obj pkt, .object ty j => if ty ≠ pkt then "type" else if j ≠ i then "member" else "?"
    | .matchOn _ _, .dynamic j => if j ≠ i then "member" else "?"
    | .checksum t algo, .checksum algo' w le j => if algo' ≠ algo then "algo" else if w ≠ t.width then "width"
        else if !leOk S w le then "le" else if j ≠ i then "member" else "?"
    | _, .skip _ => "skipped"
    | _, _ => "shape"

def expectE (S : Schema) (i : Nat) (f : Field) : String :=
  let le := S.cfg.le
  if f.rep then s!"list(pw={S.cfg.listPfx.width},le={le},elem of {kindName { f with rep := false }},member#{i})" else
  match f.kind with
  | .scalar t => s!"scalar(w={t.width},le={le},member#{i})"
  | .fixed n p => s!"fixed(n={n},pad=({p.ch.toNat},{if p.left then "left" else "right"}),member#{i})"
  | .dyn => s!"string(pw={S.cfg.strPfx.width},le={le},member#{i})"
  | .obj pkt => s!"object({pkt},member#{i})"
  | .matchOn _ _ => s!"dynamic(member#{i})"
  | .lengthOf t tg => s!"slot(w={t.width},le={le}) … patch after {tg}"
  | .checksum t a => s!"checksum({a},w={t.width},le={le},member#{i})"

def unsupportedTarget (pk target : String) : Reason :=
  { side := "enc", packet := pk, field := target, kind := "length", attr := "unsupported-target-kind",
    expected := "mark, target, mark, patch around any kind of target", got := "a target that is not one packet-typed / match member" }

def walkE (S : Schema) (pk : String) (all : List Field) : Option Pending → Nat → List Field → List EStep → List Reason
  | none, _, [], [] => []
  | some p, _, [], _ =>
    [{ side := "enc", packet := pk, field := p.target, kind := "length", attr := "length-plan/target-never-patched", expected := "mark, target, mark, patch", got := "end" }]
  | none, _, [], st :: _ => [{ side := "enc", packet := pk, field := "-", kind := "-", attr := "extra-step", expected := "end", got := estepStr st }]
  | pend, i, f :: fs, steps =>
    let mk := fun (attr got : String) => ({ side := "enc", packet := pk, field := f.name, kind := kindName f, attr, expected := expectE S i f, got } : Reason)
    match roleOf pend f, steps with
    | .len t target, .slot w1 le1 pv :: rest =>
      (if w1 ≠ t.width then [mk "slot.width" (estepStr (.slot w1 le1 pv))]
       else if !leOk S w1 le1 then [mk "slot.le" (estepStr (.slot w1 le1 pv))] else [])
        ++ walkE S pk all (some ⟨pv, t.width, target⟩) (i + 1) fs rest
    | .len _ target, st :: rest =>
      -- no slot where the length field stands: report and resynchronise field by field
      let where_ := match fs with | f2 :: _ => if f2.name = target then kindName f2 else "far" | [] => "none"
      mk ("length-plan/" ++ where_) (estepStr st) :: walkE S pk all none (i + 1) fs rest
    | .target p, .mark _ :: _ :: .mark _ :: .patch _ _ _ _ _ _ :: rest =>
      if f.rep || !isCallKind f.kind then
        -- the five generators compute a length only around ONE packet-typed / match member; whatever they
        -- print for another kind of target is a consequence of that, attributed to the cause
        unsupportedTarget pk p.target :: walkE S pk all none (i + 1) fs rest
      else
      match steps with
      | .mark sv :: st2 :: .mark ev :: .patch w2 le2 pv' sv' ev' slice :: rest =>
      let ok := w2 = p.w && leOk S w2 le2 && pv' = p.pv && sv' = sv && ev' = ev && sv != ev && p.pv != sv && p.pv != ev
        && fieldIdx all p.target = some i && !f.rep && isCallKind f.kind && sliceOk p.w slice
      let attr := if w2 ≠ p.w then "patch.width" else if !leOk S w2 le2 then "patch.le"
        else if !sliceOk p.w slice then "patch.slice"
        else if fieldIdx all p.target ≠ some i || f.rep || !isCallKind f.kind then "target-not-adjacent" else "patch.vars"
      (if ok then [] else
        [{ side := "enc", packet := pk, field := p.target, kind := "length", attr, expected := s!"patch(w={p.w},le={S.cfg.le}) of the slot at {p.pv}",
           got := estepStr (.patch w2 le2 pv' sv' ev' slice) }])
        ++ (if plainOkE S i f st2 then [] else [mk (eAttr S i f st2) (estepStr st2)])
        ++ walkE S pk all none (i + 1) fs rest
      | _ => []
    | .target p, st :: rest =>
      if f.rep || !isCallKind f.kind then
        unsupportedTarget pk p.target :: walkE S pk all none (i + 1) fs rest
      else
      -- the target is not wrapped in mark/patch: the length is never written
      { side := "enc", packet := pk, field := p.target, kind := "length", attr := "length-plan/" ++ kindName f,
        expected := "mark, target, mark, patch", got := estepStr st }
        :: (if plainOkE S i f st then [] else [mk (eAttr S i f st) (estepStr st)]) ++ walkE S pk all none (i + 1) fs rest
    | .plain, st :: rest =>
      (if plainOkE S i f st then [] else [mk (eAttr S i f st) (estepStr st)]) ++ walkE S pk all pend (i + 1) fs rest
    | .bad, st :: rest => mk "length-plan/second-length-field" (estepStr st) :: walkE S pk all pend (i + 1) fs rest
    | _, [] => [mk "missing-step" "end"]

def explainEnc (S : Schema) (P : Prog) : List Reason :=
  (S.packets.map fun p =>
    match P.find p.name with
    | none => [{ side := "enc", packet := p.name, field := "-", kind := "-", attr := "missing-struct", expected := p.name, got := "" }]
    | some st =>
      (if st.members.length = p.fields.length then [] else
        [{ side := "enc", packet := p.name, field := "-", kind := "-", attr := "member-count", expected := toString p.fields.length, got := toString st.members.length }])
      ++ walkE S p.name p.fields none 0 p.fields st.enc).flatten

def dAttr (S : Schema) (P : Prog) (all : List Field) (i : Nat) (f : Field) (st : DStep) : String :=
  if f.rep then
    match st with
    | .list pw le cm e j => if pw ≠ S.cfg.listPfx.width then "listpfx" else if !leOk S pw le then "le"
        else if cm ≠ .unsigned then "count" else if j ≠ i then "member" else "elem." ++ elemAttr S f.kind e true
    | .skip _ => "skipped"
    | _ => "shape"
  else
    match f.kind, st with
    | .scalar t, .scalar w le j | .lengthOf t _, .scalar w le j | .checksum t _, .scalar w le j =>
      if w ≠ t.width then "width" else if !leOk S w le then "le" else if j ≠ i then "member" else "?"
    | .fixed n p, .fixed n' pad j => if n' ≠ n then "n" else if !padArgOk p pad then "pad" else if j ≠ i then "member" else "?"
    | .dyn, .string pw le cm j => if pw ≠ S.cfg.strPfx.width then "strpfx" else if !leOk S pw le then "le"
        else if cm ≠ .unsigned then "count" else if j ≠ i then "member" else "?"
    | .obj pkt, .object ty j => if ty ≠ pkt then "type" else if j ≠ i then "member" else "?"
    | .matchOn key pairs, .dispatch k tbl j =>
      if j ≠ i then "member" else if fieldIdx all key ≠ some k then "key-member"
      else match keyWidthOf all key, P.table tbl with
        | some kw, some t =>
          -- is the table this field dispatches through the table of ANOTHER match field of the same packet
          -- (factories named after the packet: the known Python / C++ collision)?  Anything else is this field's own table.
          let shared := all.any fun g => g.name ≠ f.name &&
            (match g.kind with
             | .matchOn key2 pairs2 =>
               (match keyWidthOf all key2 with
                | some kw2 => t.entries.map (normKey kw2) == pairs2.map (normKey kw2)
                | none => false)
             | _ => false)
          let own := if shared then "" else "/own-table"
          -- … or keyed like another match field of the same packet (same collision, seen from the field defined last)
          let sharedKw := all.any fun g => g.name ≠ f.name &&
            (match g.kind with
             | .matchOn key2 _ => (match keyWidthOf all key2 with | some kw2 => kw2 == t.keyWidth | none => false)
             | _ => false)
          if t.keyWidth ≠ kw then "table.keywidth" ++ (if shared || sharedKw then "" else "/own-table") else if !t.errOnMiss then "table.onmiss"
            else if !tableOk kw pairs t then "table.entries" ++ own else "?"
        | none, _ => "key-type"
        | _, none => "table-missing"
    | _, .skip _ => "skipped"
    | _, _ => "shape"

def walkD (S : Schema) (P : Prog) (pk : String) (all : List Field) : Nat → List Field → List DStep → List Reason
  | _, [], [] => []
  | _, [], st :: _ => [{ side := "dec", packet := pk, field := "-", kind := "-", attr := "extra-step", expected := "end", got := dstepStr st }]
  | i, f :: _, [] => [{ side := "dec", packet := pk, field := f.name, kind := kindName f, attr := "missing-step", expected := expectE S i f, got := "end" }]
  | i, f :: fs, st :: rest =>
    (if plainOkD S P all i f st then [] else
      [{ side := "dec", packet := pk, field := f.name, kind := kindName f, attr := dAttr S P all i f st, expected := expectE S i f, got := dstepStr st }])
    ++ walkD S P pk all (i + 1) fs rest

def explainDec (S : Schema) (P : Prog) : List Reason :=
  (S.packets.map fun p =>
    match P.find p.name with
    | none => [{ side := "dec", packet := p.name, field := "-", kind := "-", attr := "missing-struct", expected := p.name, got := "" }]
    | some st =>
      (if st.members.length = p.fields.length then [] else
        [{ side := "dec", packet := p.name, field := "-", kind := "-", attr := "member-count", expected := toString p.fields.length, got := toString st.members.length }])
      ++ walkD S P p.name p.fields 0 p.fields st.dec).flatten

end FinProtoc.Explain
