import FinProtoc.Proofs.FmtLemmas
import FinProtoc.Visit
/-!
# C11 — no input crashes the formatter or the compiler

The models make every Go panic site an explicit `throw`; the differential `format` / `model`
ops check on every run that model and real code crash on exactly the same inputs (same class).

* `format_no_panic` (proved, every text whatsoever): the formatter model never panics.  On the pinned
  tree this needed two hypotheses (empty tree, `@leftPad()`); both crashes were genuine, were repaired
  by `fix:` commits, and the theorem is now unconditional (DESIGN §9, KNOWN_FINDINGS.txt).
* the visitor / generator part is decided by correspondence + crash probes only in this round
  (the visitor model recurses through a `partial def`); DESIGN §12.
-/
namespace FinProtoc.Props
open FinProtoc FinProtoc.Dsl FinProtoc.Fmt

theorem format_no_panic (L : Layout) (s : String) : ∀ c, formatWith L s ≠ .panic c := by
  intro c h
  unfold formatWith at h
  cases hp : parseFull s with
  | none => simp only [hp] at h; cases h
  | some cst =>
    simp only [hp] at h
    obtain ⟨⟨t, st⟩, hr⟩ := cstText_noFail L (lex s).gaps (lex s).toks.head? cst {}
    simp only [hr] at h
    cases h

/-- a text that fin-protoc does not accept never reaches the printer -/
theorem format_syntax_error_no_print (L : Layout) (s : String) (h : parseFull s = none) :
    formatWith L s = .syntaxError := by
  unfold formatWith; simp only [h]

end FinProtoc.Props
