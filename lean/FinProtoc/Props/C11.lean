import FinProtoc.Proofs.FmtLemmas
import FinProtoc.Proofs.VisitSafe
import FinProtoc.Dsl.Parser
import FinProtoc.Visit
/-!
# C11 — no input crashes the formatter or the compiler

The models make every Go panic site an explicit `throw`; the differential `format` / `model`
ops check on every run that model and real code crash on exactly the same inputs (same class).

* `format_no_panic` (proved, every text whatsoever): the formatter model never panics.  On the pinned
  tree this needed two hypotheses (empty tree, `@leftPad()`); both crashes were genuine, were repaired
  by `fix:` commits, and the theorem is now unconditional (DESIGN §9, KNOWN_FINDINGS.txt).
* `visit_no_crash` (proved, every concrete syntax tree whatsoever): the visitor model (`Visit.run`:
  `VisitPacket` ... `ResolveDependencies`) never takes one of its `throw`s - no nil dereference, no failed type
  assertion, no index out of range, no exhausted recursion fuel.  The model is total (mutual structural recursion
  over the nested `FieldDef`, fuel-bounded descent through the anonymous packets of inline objects); the proof
  (`Proofs/VisitSafe.lean`) is a weakest-precondition calculus over `StateT VState (Except Crash)` and four store
  invariants.  That the model IS the visitor is decided by the differential `model` op and the crash probes.
* the generator part is decided by correspondence + crash probes only; DESIGN §12.
-/
namespace FinProtoc.Props
open FinProtoc FinProtoc.Dsl FinProtoc.Fmt

theorem format_no_panic (L : Layout) (s : String) : ∀ c, formatWith L s ≠ .panic c := by
  intro c h
  unfold formatWith at h
  cases hp : parseFull s with
  | none => simp only [hp] at h; cases h
  | some cst =>
    simp only [hp] at h
    obtain ⟨⟨t, st⟩, hr⟩ := cstText_noFail L (lex s).gaps (lex s).toks.head? cst {}
    simp only [hr] at h
    cases h

/-- a text that fin-protoc does not accept never reaches the printer -/
theorem format_syntax_error_no_print (L : Layout) (s : String) (h : parseFull s = none) :
    formatWith L s = .syntaxError := by
  unfold formatWith; simp only [h]

/-! ## The visitor model never crashes -/

/-- For every concrete syntax tree the visitor model returns a model state: none of the panic sites of
`packet_dsl_parser.go` / `model.go` that the model makes explicit (`Crash.nilDeref`, `.assert`, `.index`, `.stack`)
is reachable.  In particular
* `Field.GetType()` is only ever called on a field whose attribute pointer is set and valid (`@calculatedFrom`,
  `@lengthOf` attributes; the length field in the second loop of `VisitPacketDefinition`);
* a length / checksum field named after a MetaData entry always finds the entry's attribute;
* the `lengthField` of a packet always holds a `LengthFieldAttribute` whose target is not nil when the second loop
  dereferences it;
* `resolveFields` never exhausts its fuel (the number of anonymous packets). -/
theorem visit_no_crash (c : Dsl.Cst) : ∃ s, Visit.run c = .ok s := Visit.run_ok c

/-- the same, read as "no crash of any class" -/
theorem visit_no_crash' (c : Dsl.Cst) : ∀ e, Visit.run c ≠ .error e := by
  intro e h
  obtain ⟨s, hs⟩ := visit_no_crash c
  rw [hs] at h
  cases h

/-- a text that the parser accepts is visited without a crash -/
theorem visit_text_no_crash (text : String) (c : Dsl.Cst) (_ : parseFull text = some c) :
    ∃ s, Visit.run c = .ok s := visit_no_crash c

/-! ### Non-vacuity: the guarded sites are exercised and the run ends in `.ok`

A MetaData-typed field (`MsgType`), a length field named after a MetaData entry (`BodyLen @lengthOf(Body)`:
site 2, then sites 1 and 3 in the second loop), an inline object (`Head { .. }`: `resolveFields` descends with
fuel 1) and a match field (`Body`). -/

private def tk (k : TK) (s : String) (l : Nat) : Tok := { kind := k, text := s, line := l, col := 0 }
private def cm (l : Nat) : Tok := tk .comma "," l

/-- `MetaData Common { u16 MsgType, u32 BodyLen, }  root packet Msg { MsgType, BodyLen @lengthOf(Body), Head { u8 Ver, },
match MsgType as Body { 1 : Logon, }, }  packet Logon { string User, }` -/
private def exCst : Cst := { defs := [
  .metaD { kw := tk .metadata "MetaData" 1, name := tk .ident "Common" 1, lb := tk .lbrace "{" 1,
           entries := [.decl { ty := .basic (tk .uint16 "u16" 2), name := tk .ident "MsgType" 2, doc := none, comma := cm 2 },
                       .decl { ty := .basic (tk .uint32 "u32" 3), name := tk .ident "BodyLen" 3, doc := none, comma := cm 3 }],
           rb := tk .rbrace "}" 4 },
  .packet { root := some (tk .root "root" 5), kw := tk .packet "packet" 5, name := tk .ident "Msg" 5, lb := tk .lbrace "{" 5,
            fields := [
              { attrs := [], fd := .obj none (tk .ident "MsgType" 6) none none (cm 6) },
              { attrs := [], fd := .len { ty := none, name := tk .ident "BodyLen" 7,
                                          attr := { kw := tk .lengthOf "@lengthOf(" 7, from_ := tk .ident "Body" 7, rp := tk .rparen ")" 7 },
                                          doc := none, comma := cm 7 } },
              { attrs := [], fd := .iner none (tk .ident "Head" 8) (tk .lbrace "{" 8)
                                     [.metaF none { ty := .basic (tk .uint8 "u8" 9), name := tk .ident "Ver" 9, doc := none, comma := cm 9 }]
                                     (tk .rbrace "}" 10) (cm 10) },
              { attrs := [], fd := .match_ { kw := tk .match_ "match" 11, key := tk .ident "MsgType" 11, as_ := tk .kwAs "as" 11,
                                             name := tk .ident "Body" 11, lb := tk .lbrace "{" 11,
                                             pairs := [{ key := .single (tk .digits "1" 12), colon := tk .colon ":" 12,
                                                         target := tk .ident "Logon" 12, comma := some (cm 12) }],
                                             rb := tk .rbrace "}" 13 } (cm 13) }],
            rb := tk .rbrace "}" 14 },
  .packet { root := none, kw := tk .packet "packet" 15, name := tk .ident "Logon" 15, lb := tk .lbrace "{" 15,
            fields := [{ attrs := [], fd := .metaF none { ty := .dyn (tk .string "string" 16), name := tk .ident "User" 16, doc := none, comma := cm 16 } }],
            rb := tk .rbrace "}" 17 }] }

/-- evaluated by the kernel: `.ok`, no diagnostic, two packets and one anonymous packet, the root packet's length
field `BodyLen` with its target resolved, and nine attribute objects -/
example : (match Visit.run exCst with
    | .ok s => s.diags.isEmpty && s.packets.length == 2 && s.ipackets.size == 1 && s.attrs.size == 9 &&
        (s.packets.map (·.lengthField)) == [some "BodyLen", none] &&
        s.attrs.toList.contains (.length "u32" (some "Body")) &&
        s.attrs.toList.contains (.object true "Head" (.inline 0))
    | .error _ => false) = true := by
  decide +kernel

private def exText : String :=
  "MetaData Common {\n u16 MsgType,\n u32 BodyLen,\n}\nroot packet Msg {\n MsgType,\n BodyLen @lengthOf(Body),\n Head {\n u8 Ver,\n },\n match MsgType as Body {\n 1 : Logon,\n },\n}\npacket Logon {\n string User,\n}\n"

/-- the same program as text, through lexer and parser (kernel-evaluated as well) -/
example : ((parseFull exText).map fun c =>
    match Visit.run c with
    | .ok s => s.diags.isEmpty && s.packets.length == 2 && s.ipackets.size == 1
    | .error _ => false) = some true := by
  decide +kernel

/-- a program that is NOT well formed (unknown length target, unknown match key, unknown match target, length field
in an inline object) is diagnosed four times, not crashed on -/
example : ((parseFull "root packet P {\n u16 L @lengthOf(Nope),\n In {\n u8 A @lengthOf(B),\n match Zz as B {\n 1 : Q,\n },\n },\n}\n").map fun c =>
    match Visit.run c with
    | .ok s => s.diags.length
    | .error _ => 0) = some 4 := by
  decide +kernel

end FinProtoc.Props
