import FinProtoc.Proofs.FmtLemmas
/-!
# C09 — formatting changes layout only, never meaning or content

Proved about the formatter MODEL (`Fmt`, tied to the real formatter on every run by the differential
`format` op — outputs must be equal byte for byte, crashes included):

* `format_error_identity`: when the parser reports a syntax error the printer is never run; the
  result is "input unchanged + error" (the model's `.syntaxError`), for every text.
* `accepted_is_whole`: a text is only formatted when the lexer dropped nothing and the start rule consumed
  every token (both were silent losses on the pinned tree, repaired by a `fix:` commit).

Content retention (`sig (lex (format x)) = sig (lex x)`), re-parsability and meaning preservation are
decided per text on the REAL output by the check, using the Lean lexer/parser/visitor as judges; their
Lean proofs for all texts (`fmt_tokens`, `fmt_reparse`, `fmt_meaning` of DESIGN §8) are staged.
-/
namespace FinProtoc.Props
open FinProtoc FinProtoc.Dsl FinProtoc.Fmt

theorem format_error_identity (L : Layout) (s : String) (h : parseFull s = none) :
    formatWith L s = .syntaxError := by
  unfold formatWith; simp only [h]

theorem format_ok_is_parsed (L : Layout) (s t : String) (h : formatWith L s = .ok t) :
    ∃ cst, parseFull s = some cst := by
  cases hp : parseFull s with
  | none => rw [format_error_identity L s hp] at h; cases h
  | some x => exact ⟨x, rfl⟩

/-- whatever is accepted has no lexical error and no unconsumed token: nothing can be silently dropped
before the printer even starts -/
theorem accepted_is_whole (s : String) (cst : Cst) (h : parseFull s = some cst) :
    lexErrors s = 0 ∧ parseToks (lex s).toks = some (cst, []) := by
  unfold parseFull at h
  split at h
  · cases h
  · rename_i hz
    split at h
    · rename_i c hp; simp at h; subst h; exact ⟨by simpa using hz, hp⟩
    · cases h

/-- key lists up to the wrap width are printed on one line, items in the given order -/
theorem keylist_short (L : Layout) (vs : List String) (h : vs.length ≤ L.wrap) :
    formatStringList L vs = "[" ++ ", ".intercalate vs ++ "]" := by
  simp [formatStringList, h]


end FinProtoc.Props
