import FinProtoc.Proofs.FmtLemmas
import FinProtoc.Proofs.ParserToks
/-!
# C09 — formatting changes layout only, never meaning or content

Proved about the formatter MODEL (`Fmt`, tied to the real formatter on every run by the differential
`format` op — outputs must be equal byte for byte, crashes included):

* `format_error_identity`: when the parser reports a syntax error the printer is never run; the
  result is "input unchanged + error" (the model's `.syntaxError`), for every text.
* `accepted_is_whole`: a text is only formatted when the lexer dropped nothing and the start rule consumed
  every token (both were silent losses on the pinned tree, repaired by a `fix:` commit).

* `parseToks_toks`, `parsed_tree_is_the_text`: the parser model neither drops, invents nor reorders tokens — the
  token view of the tree of an accepted text is exactly the lexer's list of visible tokens (per-rule lemmas in
  `Proofs/ParserToks.lean`).  So every declaration, attribute and documentation string reaches the printer, in order.

Content retention (`sig (lex (format x)) = sig (lex x)`), re-parsability and meaning preservation are
decided per text on the REAL output by the check, using the Lean lexer/parser/visitor as judges; their
Lean proofs for all texts (`fmt_tokens`, `fmt_reparse`, `fmt_meaning` of DESIGN §8) are staged.
-/
namespace FinProtoc.Props
open FinProtoc FinProtoc.Dsl FinProtoc.Fmt

theorem format_error_identity (L : Layout) (s : String) (h : parseFull s = none) :
    formatWith L s = .syntaxError := by
  unfold formatWith; simp only [h]

theorem format_ok_is_parsed (L : Layout) (s t : String) (h : formatWith L s = .ok t) :
    ∃ cst, parseFull s = some cst := by
  cases hp : parseFull s with
  | none => rw [format_error_identity L s hp] at h; cases h
  | some x => exact ⟨x, rfl⟩

/-- whatever is accepted has no lexical error and no unconsumed token: nothing can be silently dropped
before the printer even starts -/
theorem accepted_is_whole (s : String) (cst : Cst) (h : parseFull s = some cst) :
    lexErrors s = 0 ∧ parseToks (lex s).toks = some (cst, []) := by
  unfold parseFull at h
  split at h
  · cases h
  · rename_i hz
    split at h
    · rename_i c hp; simp at h; subst h; exact ⟨by simpa using hz, hp⟩
    · cases h

/-- key lists up to the wrap width are printed on one line, items in the given order -/
theorem keylist_short (L : Layout) (vs : List String) (h : vs.length ≤ L.wrap) :
    formatStringList L vs = "[" ++ ", ".intercalate vs ++ "]" := by
  simp [formatStringList, h]

/-! ## Parser token fidelity

The tree the printer walks is the author's text, token for token: the parser model keeps every token it
consumes in the node it builds, in source order, and consumes nothing it does not keep
(`Proofs/ParserToks.lean` has the same statement for each of the 25 rules). -/

/-- PARSER TOKEN FIDELITY.  Whenever the parser model accepts a token list, reading the tokens off the
tree from left to right (`Cst.toks`) and appending the tokens the start rule left unconsumed gives back the
input token list exactly: no token is dropped, invented, duplicated or moved. -/
theorem parseToks_toks (ts : List Tok) (cst : Cst) (rest : List Tok) (h : parseToks ts = some (cst, rest)) :
    cst.toks ++ rest = ts :=
  parseToks_toks' h

/-- For an ACCEPTED text (what the formatter formats) the tokens of the tree are exactly the visible tokens
of the text, in order: every declaration, attribute, documentation string, separator and brace the author
wrote is in the tree the printer walks, at its place. -/
theorem parsed_tree_is_the_text (s : String) (cst : Cst) (h : parseFull s = some cst) :
    cst.toks = (lex s).toks := by
  have h' := parseToks_toks _ _ _ (accepted_is_whole s cst h).2
  simpa using h'

/-- whatever text is formatted (`.ok`), the tree that was printed carries every visible token of the text -/
theorem formatted_tree_is_the_text (L : Layout) (s t : String) (h : formatWith L s = .ok t) :
    ∃ cst, parseFull s = some cst ∧ cst.toks = (lex s).toks := by
  obtain ⟨cst, hc⟩ := format_ok_is_parsed L s t h
  exact ⟨cst, hc, parsed_tree_is_the_text s cst hc⟩

/-- a text with comments in several positions, documentation strings, attributes, a nested object, a
match with a key list, options and MetaData (used for the non-vacuity checks here and in `C10`) -/
def exFmtText : String :=
  "// a\noptions { // b\n X = 1; // c\n}\nMetaData M {\n u8 T `d`,\n}\n// e\nroot packet P { // f\n // g\n T, // h\n @tag(7)\n" ++
  " u8 L @lengthOf(B) `n`, // i\n repeat H {\n  u8 V, // j\n }, // k\n match T as B {\n  // l\n  [1, 2] : Q, // m\n },\n} // n\n// o\n"

/-- non-vacuity: the text is accepted, its tree has 55 tokens, and they are the lexer's visible tokens
(the instance of `parsed_tree_is_the_text`, evaluated by the kernel as well) -/
theorem exFmtText_accepted :
    ((parseFull exFmtText).map fun c => c.toks.length == 55 && c.toks == (lex exFmtText).toks) = some true := by
  decide +kernel

example : ∃ cst, parseFull exFmtText = some cst ∧ cst.toks = (lex exFmtText).toks := by
  cases h : parseFull exFmtText with
  | none => have := exFmtText_accepted; rw [h] at this; cases this
  | some cst => exact ⟨cst, rfl, parsed_tree_is_the_text _ _ h⟩

end FinProtoc.Props
