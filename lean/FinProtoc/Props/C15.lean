import FinProtoc.Lua
/-!
# C15 — the Wireshark dissector attributes each field its true byte range

The emitted Lua is extracted into the dissector IR (`Lua.LProg`); `Lua.confDis S snake D` holds iff
`D` is the canonical dissector `packetStmts` of the schema with helpers defined before use.  Proved:

* `call_defined`: under `orderOk`, every helper a function calls is visible at the call (a `local
  function` sees itself and the functions defined before it) — "every helper it calls exists when called";
* `flat_sound_partial`: for a packet whose fields are fixed-size leaves (scalars of every width,
  `char[n]`/`zchar[n]`, length-of and checksum fields) — any number of them, any message, any buffer that
  contains the message at any offset — running the canonical statements attributes exactly the declared
  ranges `Lua.rangesFields`, in order, and leaves the offset exactly behind the packet.

The full statement (`dissect_sound`: prefixes, lists, nested and match payloads) is decided per run by the
validator + the executable semantics on sampled messages; its proof needs the decode-of-encode lemmas of
C02's staged round trip and is staged with it (DESIGN §8 C15) — hence `_partial`.
-/
namespace FinProtoc.Props
open FinProtoc FinProtoc.Lua

theorem call_defined (funcs : List LFunc) (h : orderOk funcs = true) (i : Nat) (f : LFunc) (hf : funcs[i]? = some f)
    (c : String) (hc : c ∈ calleesOf f.body) : (visibleUpTo (funcs.take (i + 1)) c).isSome = true := by
  unfold orderOk at h
  have hi : (f, i) ∈ funcs.zipIdx := by
    have := List.getElem?_eq_some_iff.mp hf
    obtain ⟨hlt, hget⟩ := this
    rw [List.mem_iff_getElem?]
    exact ⟨i, by simp [List.getElem?_zipIdx, hf]⟩
  have h1 := List.all_eq_true.mp h (f, i) hi
  simp only at h1
  have h2 := List.all_eq_true.mp h1 c hc
  obtain ⟨g, hg, hname⟩ := List.any_eq_true.mp h2
  unfold visibleUpTo
  have hlt : List.findIdx (fun x => decide (x.name = c)) (List.take (i + 1) funcs) < (List.take (i + 1) funcs).length := by
    apply List.findIdx_lt_length_of_exists
    exact ⟨g, hg, hname⟩
  rw [List.getElem?_eq_getElem hlt]
  rfl

/-- fixed-size leaf kinds: what they show and how far they advance is a constant of the schema -/
def flatKind : FKind → Bool
  | .scalar _ | .lengthOf _ _ | .checksum _ _ | .fixed _ _ => true
  | _ => false

def flatFields (fs : List Field) : Bool := fs.all fun f => !f.rep && flatKind f.kind

def widthOf : FKind → Nat
  | .scalar t | .lengthOf t _ | .checksum t _ => t.width
  | .fixed n _ => n
  | _ => 0

theorem noKeys_of_flat (all : List Field) (h : flatFields all = true) (name : String) : isKeyField all name = false := by
  unfold isKeyField
  apply Bool.eq_false_iff.mpr
  intro hany
  obtain ⟨f, hf, hk⟩ := List.any_eq_true.mp hany
  have := List.all_eq_true.mp h f hf
  cases hkk : f.kind <;> simp [hkk, flatKind] at this hk

theorem flat_kind_run (S : Schema) (snake : String → String) (pkt name : String) (bs : Bytes) (call : LCall) (vis : List LFunc)
    (k : FKind) (hflat : flatKind k = true) (v : Val) (off : Nat) (rs : List (String × Nat × Nat)) (off' : Nat)
    (hr : rangesVal S snake pkt name k v off = some (rs, off')) (hlen : off' ≤ bs.length)
    (vars : List (String × LVal)) (out : List (String × Nat × Nat)) :
    runStmts bs call vis ((elemStmts S snake pkt name k).map .simple) { offset := off, vars, out } =
      some { offset := off', vars, out := out ++ rs } := by
  cases k <;> simp [flatKind] at hflat <;> cases v <;> simp [rangesVal] at hr <;>
    (obtain ⟨rfl, rfl⟩ := hr
     have hle : ∀ w, off + w ≤ bs.length → (if off + w ≤ bs.length then some ((bs.drop off).take w) else none) = some ((bs.drop off).take w) := by
       intro w h; simp [h]
     simp [elemStmts, runStmts, runStmt, runSimple, lenOf, slice, bind, Option.bind, hlen])

theorem flat_field_run (S : Schema) (snake : String → String) (pkt : String) (all : List Field) (hall : flatFields all = true)
    (bs : Bytes) (call : LCall) (vis : List LFunc) (f : Field) (hf : (!f.rep && flatKind f.kind) = true) (v : Val)
    (off : Nat) (rs : List (String × Nat × Nat)) (off' : Nat)
    (hr : rangesVal S snake pkt f.name f.kind v off = some (rs, off')) (hlen : off' ≤ bs.length)
    (vars : List (String × LVal)) (out : List (String × Nat × Nat)) :
    runStmts bs call vis (fieldStmts S snake pkt all f) { offset := off, vars, out } =
      some { offset := off', vars, out := out ++ rs } := by
  simp only [Bool.and_eq_true, Bool.not_eq_true'] at hf
  obtain ⟨hrep, hflat⟩ := hf
  have hkey := noKeys_of_flat all hall f.name
  have hs : fieldStmts S snake pkt all f = (elemStmts S snake pkt f.name f.kind).map .simple := by
    unfold fieldStmts
    simp only [hkey, hrep, Bool.false_and, Bool.false_eq_true, if_false, List.nil_append]
    cases hk : f.kind <;> simp [hk, flatKind] at hflat <;> rfl
  rw [hs]
  exact flat_kind_run S snake pkt f.name bs call vis f.kind hflat v off rs off' hr hlen vars out

theorem flat_kind_mono (S : Schema) (snake : String → String) (pkt name : String) (k : FKind) (hflat : flatKind k = true) (v : Val)
    (off : Nat) (rs : List (String × Nat × Nat)) (off' : Nat) (hr : rangesVal S snake pkt name k v off = some (rs, off')) : off ≤ off' := by
  cases k <;> simp [flatKind] at hflat <;> cases v <;> simp [rangesVal] at hr <;> omega

/-- the expression `rangesFields` evaluates for one field -/
def rangesField (S : Schema) (snake : String → String) (pkt : String) (f : Field) (v : Val) (off : Nat) :
    Option (List (String × Nat × Nat) × Nat) :=
  if f.rep then
    match v with
    | .list es => rangesList S snake pkt f.name f.kind es (off + S.cfg.listPfx.width)
    | _ => none
  else rangesVal S snake pkt f.name f.kind v off

theorem rangesFields_cons {S : Schema} {snake : String → String} {pkt : String} {f : Field} {fs : List Field} {v : Val} {vs : List Val} {off : Nat} :
    rangesFields S snake pkt (f :: fs) (v :: vs) off =
      (rangesField S snake pkt f v off >>= fun r1 => rangesFields S snake pkt fs vs r1.2 >>= fun r2 => pure (r1.1 ++ r2.1, r2.2)) := by
  unfold rangesField
  cases v <;> simp [rangesFields] <;> rfl

theorem rangesField_flat {S : Schema} {snake : String → String} {pkt : String} {f : Field} {v : Val} {off : Nat} (hrep : f.rep = false) :
    rangesField S snake pkt f v off = rangesVal S snake pkt f.name f.kind v off := by
  simp [rangesField, hrep]

theorem ranges_mono {S : Schema} {snake : String → String} {pkt : String} :
    ∀ (fs : List Field) (vs : List Val) (off : Nat) (rs : List (String × Nat × Nat)) (off' : Nat),
      flatFields fs = true → rangesFields S snake pkt fs vs off = some (rs, off') → off ≤ off' := by
  intro fs
  induction fs with
  | nil => intro vs off rs off' _ h; cases vs <;> simp [rangesFields] at h; omega
  | cons f fs ih =>
    intro vs off rs off' hflat h
    cases vs with
    | nil => simp [rangesFields] at h
    | cons v vs =>
      simp only [flatFields, List.all_cons, Bool.and_eq_true] at hflat
      obtain ⟨⟨hrep, hk⟩, hrest⟩ := hflat
      simp only [Bool.not_eq_true'] at hrep
      rw [rangesFields_cons, rangesField_flat hrep] at h
      cases h1 : rangesVal S snake pkt f.name f.kind v off with
      | none => simp [h1] at h
      | some r1 =>
        obtain ⟨a, o1⟩ := r1
        simp only [h1, bind, Option.bind] at h
        cases h2 : rangesFields S snake pkt fs vs o1 with
        | none => simp [h2] at h
        | some r2 =>
          obtain ⟨b, o2⟩ := r2
          simp [h2] at h
          obtain ⟨_, rfl⟩ := h
          have hm := ih vs o1 b o2 hrest h2
          have : off ≤ o1 := flat_kind_mono S snake pkt f.name f.kind hk v off a o1 h1
          omega

/-- C15 for packets of fixed-size leaves: exactly the declared ranges, offset exactly behind the packet -/
theorem flat_sound_partial (S : Schema) (snake : String → String) (pkt : String) (all : List Field) (hall : flatFields all = true)
    (bs : Bytes) (call : LCall) (vis : List LFunc) :
    ∀ (fs : List Field), (∀ f ∈ fs, f ∈ all) → ∀ (vs : List Val) (off : Nat) (rs : List (String × Nat × Nat)) (off' : Nat),
      rangesFields S snake pkt fs vs off = some (rs, off') → off' ≤ bs.length →
      ∀ (vars : List (String × LVal)) (out : List (String × Nat × Nat)),
        runStmts bs call vis ((fs.map (fieldStmts S snake pkt all)).flatten) { offset := off, vars, out } =
          some { offset := off', vars, out := out ++ rs } := by
  intro fs
  induction fs with
  | nil =>
    intro _ vs off rs off' h _ vars out
    cases vs <;> simp [rangesFields] at h
    obtain ⟨rfl, rfl⟩ := h
    simp [runStmts]
  | cons f fs ih =>
    intro hsub vs off rs off' h hlen vars out
    cases vs with
    | nil => simp [rangesFields] at h
    | cons v vs =>
      have hfl : (!f.rep && flatKind f.kind) = true := List.all_eq_true.mp hall f (hsub f (by simp))
      have hfs : flatFields fs = true := by
        apply List.all_eq_true.mpr
        intro g hg; exact List.all_eq_true.mp hall g (hsub g (by simp [hg]))
      have hrep : f.rep = false := by simp only [Bool.and_eq_true, Bool.not_eq_true'] at hfl; exact hfl.1
      rw [rangesFields_cons, rangesField_flat hrep] at h
      cases h1 : rangesVal S snake pkt f.name f.kind v off with
      | none => simp [h1] at h
      | some r1 =>
        obtain ⟨a, o1⟩ := r1
        simp only [h1, bind, Option.bind] at h
        cases h2 : rangesFields S snake pkt fs vs o1 with
        | none => simp [h2] at h
        | some r2 =>
          obtain ⟨b, o2⟩ := r2
          simp [h2] at h
          obtain ⟨rfl, rfl⟩ := h
          have hmono := ranges_mono fs vs o1 b o2 hfs h2
          have hstep := flat_field_run S snake pkt all hall bs call vis f hfl v off a o1 h1 (by omega) vars out
          have hrest := ih (fun g hg => hsub g (by simp [hg])) vs o1 b o2 h2 hlen vars (out ++ a)
          simp only [List.map_cons, List.flatten_cons]
          rw [runStmts_append, hstep]
          simp only [bind, Option.bind]
          rw [hrest, List.append_assoc]
where
  runStmts_append {bs : Bytes} {call : LCall} {vis : List LFunc} :
      ∀ (xs ys : List LStmt) (s : LState), runStmts bs call vis (xs ++ ys) s = (runStmts bs call vis xs s >>= runStmts bs call vis ys) := by
    intro xs
    induction xs with
    | nil => intro ys s; simp [runStmts]
    | cons x xs ih =>
      intro ys s
      simp only [List.cons_append, runStmts]
      cases runStmt bs call vis x s with
      | none => simp
      | some s' => simp [ih]

end FinProtoc.Props
