import FinProtoc.Lua
import FinProtoc.Proofs.Dissect
/-!
# C15 — the Wireshark dissector attributes each field its true byte range

The emitted Lua is extracted into the dissector IR (`Lua.LProg`); `Lua.confDis S snake D` holds iff
`D` is the canonical dissector `packetStmts` of the schema with helpers defined before use.  Proved:

* `call_defined`: under `orderOk`, every helper a function calls is visible at the call (a `local
  function` sees itself and the functions defined before it) — "every helper it calls exists when called";
* `flat_sound_partial`: for a packet whose fields are fixed-size leaves (scalars of every width,
  `char[n]`/`zchar[n]`, length-of and checksum fields) — any number of them, any message, any buffer that
  contains the message at any offset — running the canonical statements attributes exactly the declared
  ranges `Lua.rangesFields`, in order, and leaves the offset exactly behind the packet.

* `dissect_sound` (round 4; `Proofs/Dissect.lean`, mutual induction over `Wire.encVal`): for every schema without match
  fields, every dissector the validator accepts, every registry, every message of the root packet built from scalars,
  fixed strings, length-of / checksum members, strings and lists that fit their prefixes and nested objects to any
  depth, and every bytes following the message — running the emitted dissector over the canonical encoding shows
  exactly `Lua.ranges` (each field at the offset and with the length it occupies on the wire, prefixes read with the
  configured width and byte order, helpers found when called) and ends exactly behind the message.

What stays outside the theorem is the match payload: the real generator drops the offset a payload's helper returns
and reads a string key at its prefix (known findings `lua/match-call-drops-offset`, `lua/string-key-read-at-prefix`), so
no emitted dissector of a schema with a match field is canonical; those schemas are decided per run by the validator
and the executable semantics on sampled messages (`dissect_sound` needs `keyFree`).
-/
namespace FinProtoc.Props
open FinProtoc FinProtoc.Lua

theorem call_defined (funcs : List LFunc) (h : orderOk funcs = true) (i : Nat) (f : LFunc) (hf : funcs[i]? = some f)
    (c : String) (hc : c ∈ calleesOf f.body) : (visibleUpTo (funcs.take (i + 1)) c).isSome = true := by
  unfold orderOk at h
  have hi : (f, i) ∈ funcs.zipIdx := by
    have := List.getElem?_eq_some_iff.mp hf
    obtain ⟨hlt, hget⟩ := this
    rw [List.mem_iff_getElem?]
    exact ⟨i, by simp [List.getElem?_zipIdx, hf]⟩
  have h1 := List.all_eq_true.mp h (f, i) hi
  simp only at h1
  have h2 := List.all_eq_true.mp h1 c hc
  obtain ⟨g, hg, hname⟩ := List.any_eq_true.mp h2
  unfold visibleUpTo
  have hlt : List.findIdx (fun x => decide (x.name = c)) (List.take (i + 1) funcs) < (List.take (i + 1) funcs).length := by
    apply List.findIdx_lt_length_of_exists
    exact ⟨g, hg, hname⟩
  rw [List.getElem?_eq_getElem hlt]
  rfl

/-- fixed-size leaf kinds: what they show and how far they advance is a constant of the schema -/
def flatKind : FKind → Bool
  | .scalar _ | .lengthOf _ _ | .checksum _ _ | .fixed _ _ => true
  | _ => false

def flatFields (fs : List Field) : Bool := fs.all fun f => !f.rep && flatKind f.kind

def widthOf : FKind → Nat
  | .scalar t | .lengthOf t _ | .checksum t _ => t.width
  | .fixed n _ => n
  | _ => 0

theorem noKeys_of_flat (all : List Field) (h : flatFields all = true) (name : String) : isKeyField all name = false := by
  unfold isKeyField
  apply Bool.eq_false_iff.mpr
  intro hany
  obtain ⟨f, hf, hk⟩ := List.any_eq_true.mp hany
  have := List.all_eq_true.mp h f hf
  cases hkk : f.kind <;> simp [hkk, flatKind] at this hk

theorem flat_kind_run (S : Schema) (snake : String → String) (pkt name : String) (bs : Bytes) (call : LCall) (vis : List LFunc)
    (k : FKind) (hflat : flatKind k = true) (v : Val) (off : Nat) (rs : List (String × Nat × Nat)) (off' : Nat)
    (hr : rangesVal S snake pkt name k v off = some (rs, off')) (hlen : off' ≤ bs.length)
    (vars : List (String × LVal)) (out : List (String × Nat × Nat)) :
    runStmts bs call vis ((elemStmts S snake pkt name k).map .simple) { offset := off, vars, out } =
      some { offset := off', vars, out := out ++ rs } := by
  cases k <;> simp [flatKind] at hflat <;> cases v <;> simp [rangesVal] at hr <;>
    (obtain ⟨rfl, rfl⟩ := hr
     have hle : ∀ w, off + w ≤ bs.length → (if off + w ≤ bs.length then some ((bs.drop off).take w) else none) = some ((bs.drop off).take w) := by
       intro w h; simp [h]
     simp [elemStmts, runStmts, runStmt, runSimple, lenOf, slice, bind, Option.bind, hlen])

theorem flat_field_run (S : Schema) (snake : String → String) (pkt : String) (all : List Field) (hall : flatFields all = true)
    (bs : Bytes) (call : LCall) (vis : List LFunc) (f : Field) (hf : (!f.rep && flatKind f.kind) = true) (v : Val)
    (off : Nat) (rs : List (String × Nat × Nat)) (off' : Nat)
    (hr : rangesVal S snake pkt f.name f.kind v off = some (rs, off')) (hlen : off' ≤ bs.length)
    (vars : List (String × LVal)) (out : List (String × Nat × Nat)) :
    runStmts bs call vis (fieldStmts S snake pkt all f) { offset := off, vars, out } =
      some { offset := off', vars, out := out ++ rs } := by
  simp only [Bool.and_eq_true, Bool.not_eq_true'] at hf
  obtain ⟨hrep, hflat⟩ := hf
  have hkey := noKeys_of_flat all hall f.name
  have hs : fieldStmts S snake pkt all f = (elemStmts S snake pkt f.name f.kind).map .simple := by
    unfold fieldStmts
    simp only [hkey, hrep, Bool.false_and, Bool.false_eq_true, if_false, List.nil_append]
    cases hk : f.kind <;> simp [hk, flatKind] at hflat <;> rfl
  rw [hs]
  exact flat_kind_run S snake pkt f.name bs call vis f.kind hflat v off rs off' hr hlen vars out

theorem flat_kind_mono (S : Schema) (snake : String → String) (pkt name : String) (k : FKind) (hflat : flatKind k = true) (v : Val)
    (off : Nat) (rs : List (String × Nat × Nat)) (off' : Nat) (hr : rangesVal S snake pkt name k v off = some (rs, off')) : off ≤ off' := by
  cases k <;> simp [flatKind] at hflat <;> cases v <;> simp [rangesVal] at hr <;> omega

/-- the expression `rangesFields` evaluates for one field -/
def rangesField (S : Schema) (snake : String → String) (pkt : String) (f : Field) (v : Val) (off : Nat) :
    Option (List (String × Nat × Nat) × Nat) :=
  if f.rep then
    match v with
    | .list es => rangesList S snake pkt f.name f.kind es (off + S.cfg.listPfx.width)
    | _ => none
  else rangesVal S snake pkt f.name f.kind v off

theorem rangesFields_cons {S : Schema} {snake : String → String} {pkt : String} {f : Field} {fs : List Field} {v : Val} {vs : List Val} {off : Nat} :
    rangesFields S snake pkt (f :: fs) (v :: vs) off =
      (rangesField S snake pkt f v off >>= fun r1 => rangesFields S snake pkt fs vs r1.2 >>= fun r2 => pure (r1.1 ++ r2.1, r2.2)) := by
  unfold rangesField
  cases v <;> simp [rangesFields] <;> rfl

theorem rangesField_flat {S : Schema} {snake : String → String} {pkt : String} {f : Field} {v : Val} {off : Nat} (hrep : f.rep = false) :
    rangesField S snake pkt f v off = rangesVal S snake pkt f.name f.kind v off := by
  simp [rangesField, hrep]

theorem ranges_mono {S : Schema} {snake : String → String} {pkt : String} :
    ∀ (fs : List Field) (vs : List Val) (off : Nat) (rs : List (String × Nat × Nat)) (off' : Nat),
      flatFields fs = true → rangesFields S snake pkt fs vs off = some (rs, off') → off ≤ off' := by
  intro fs
  induction fs with
  | nil => intro vs off rs off' _ h; cases vs <;> simp [rangesFields] at h; omega
  | cons f fs ih =>
    intro vs off rs off' hflat h
    cases vs with
    | nil => simp [rangesFields] at h
    | cons v vs =>
      simp only [flatFields, List.all_cons, Bool.and_eq_true] at hflat
      obtain ⟨⟨hrep, hk⟩, hrest⟩ := hflat
      simp only [Bool.not_eq_true'] at hrep
      rw [rangesFields_cons, rangesField_flat hrep] at h
      cases h1 : rangesVal S snake pkt f.name f.kind v off with
      | none => simp [h1] at h
      | some r1 =>
        obtain ⟨a, o1⟩ := r1
        simp only [h1, bind, Option.bind] at h
        cases h2 : rangesFields S snake pkt fs vs o1 with
        | none => simp [h2] at h
        | some r2 =>
          obtain ⟨b, o2⟩ := r2
          simp [h2] at h
          obtain ⟨_, rfl⟩ := h
          have hm := ih vs o1 b o2 hrest h2
          have : off ≤ o1 := flat_kind_mono S snake pkt f.name f.kind hk v off a o1 h1
          omega

/-- C15 for packets of fixed-size leaves: exactly the declared ranges, offset exactly behind the packet -/
theorem flat_sound_partial (S : Schema) (snake : String → String) (pkt : String) (all : List Field) (hall : flatFields all = true)
    (bs : Bytes) (call : LCall) (vis : List LFunc) :
    ∀ (fs : List Field), (∀ f ∈ fs, f ∈ all) → ∀ (vs : List Val) (off : Nat) (rs : List (String × Nat × Nat)) (off' : Nat),
      rangesFields S snake pkt fs vs off = some (rs, off') → off' ≤ bs.length →
      ∀ (vars : List (String × LVal)) (out : List (String × Nat × Nat)),
        runStmts bs call vis ((fs.map (fieldStmts S snake pkt all)).flatten) { offset := off, vars, out } =
          some { offset := off', vars, out := out ++ rs } := by
  intro fs
  induction fs with
  | nil =>
    intro _ vs off rs off' h _ vars out
    cases vs <;> simp [rangesFields] at h
    obtain ⟨rfl, rfl⟩ := h
    simp [runStmts]
  | cons f fs ih =>
    intro hsub vs off rs off' h hlen vars out
    cases vs with
    | nil => simp [rangesFields] at h
    | cons v vs =>
      have hfl : (!f.rep && flatKind f.kind) = true := List.all_eq_true.mp hall f (hsub f (by simp))
      have hfs : flatFields fs = true := by
        apply List.all_eq_true.mpr
        intro g hg; exact List.all_eq_true.mp hall g (hsub g (by simp [hg]))
      have hrep : f.rep = false := by simp only [Bool.and_eq_true, Bool.not_eq_true'] at hfl; exact hfl.1
      rw [rangesFields_cons, rangesField_flat hrep] at h
      cases h1 : rangesVal S snake pkt f.name f.kind v off with
      | none => simp [h1] at h
      | some r1 =>
        obtain ⟨a, o1⟩ := r1
        simp only [h1, bind, Option.bind] at h
        cases h2 : rangesFields S snake pkt fs vs o1 with
        | none => simp [h2] at h
        | some r2 =>
          obtain ⟨b, o2⟩ := r2
          simp [h2] at h
          obtain ⟨rfl, rfl⟩ := h
          have hmono := ranges_mono fs vs o1 b o2 hfs h2
          have hstep := flat_field_run S snake pkt all hall bs call vis f hfl v off a o1 h1 (by omega) vars out
          have hrest := ih (fun g hg => hsub g (by simp [hg])) vs o1 b o2 h2 hlen vars (out ++ a)
          simp only [List.map_cons, List.flatten_cons]
          rw [runStmts_append, hstep]
          simp only [bind, Option.bind]
          rw [hrest, List.append_assoc]
where
  runStmts_append {bs : Bytes} {call : LCall} {vis : List LFunc} :
      ∀ (xs ys : List LStmt) (s : LState), runStmts bs call vis (xs ++ ys) s = (runStmts bs call vis xs s >>= runStmts bs call vis ys) := by
    intro xs
    induction xs with
    | nil => intro ys s; simp [runStmts]
    | cons x xs ih =>
      intro ys s
      simp only [List.cons_append, runStmts]
      cases runStmt bs call vis x s with
      | none => simp
      | some s' => simp [ih]

/-- what `confDis` provides to the proof -/
theorem env_of_conf {S : Schema} {snake : String → String} {D : LProg} (hconf : confDis S snake D = true) : Env S snake D := by
  unfold confDis at hconf
  simp only [Bool.and_eq_true, decide_eq_true_eq] at hconf
  obtain ⟨⟨⟨hall, hord⟩, _⟩, _⟩ := hconf
  refine ⟨?_, hord⟩
  intro q p hfind hroot
  have hp : p ∈ S.packets := List.mem_of_find?_eq_some hfind
  have hname : p.name = q := by
    have := List.find?_some hfind
    simpa using this
  have h1 := List.all_eq_true.mp hall p hp
  simp only [hroot, Bool.false_eq_true, if_false] at h1
  rw [hname] at h1
  cases hf : D.funcs.find? (fun g => decide (g.name = fnName snake q)) with
  | none => simp [hf] at h1
  | some f =>
    simp only [hf, decide_eq_true_eq] at h1
    exact ⟨f, rfl, h1⟩

/-- C15 for every schema without match fields: the accepted dissector, run over the canonical encoding of any message
(followed by anything), shows exactly the declared ranges and ends exactly behind the message. -/
theorem dissect_sound (S : Schema) (snake : String → String) (D : LProg) (reg : Registry)
    (hconf : confDis S snake D = true) (hkf : keyFree S = true)
    (pkt : String) (p : Packet) (hfind : S.find pkt = some p) (hroot : p.root = true)
    (vs : List Val) (hdom : dFields S p.fields vs = true)
    (wire : Bytes) (henc : Wire.enc S reg pkt vs [] = some wire) (suf : Bytes) (fuel : Nat) (hfuel : depthList vs ≤ fuel) :
    ∃ rs, ranges S snake pkt vs = some (rs, wire.length) ∧ dissect D fuel (wire ++ suf) = some (rs, wire.length) := by
  have env := env_of_conf hconf
  have hp : p ∈ S.packets := List.mem_of_find?_eq_some hfind
  have hmain : D.main = packetStmts S snake p := by
    unfold confDis at hconf
    simp only [Bool.and_eq_true, decide_eq_true_eq] at hconf
    have h1 := List.all_eq_true.mp hconf.1.1.1 p hp
    simpa [hroot] using h1
  have hvis : Vis D D.funcs (calleesOf (packetStmts S snake p)) := by
    refine ⟨⟨D.funcs.length, by simp⟩, ?_⟩
    unfold confDis at hconf
    simp only [Bool.and_eq_true, decide_eq_true_eq] at hconf
    rw [← hmain]
    exact fun c hc => List.all_eq_true.mp hconf.1.2 c hc
  simp only [Wire.enc, hfind, bind, Option.bind] at henc
  have hk : ∀ g ∈ p.fields, isKeyField p.fields g.name = false := fun g _ => noKey_of_keyFree hkf hfind g.name
  obtain ⟨rs, vars', hr, hrun⟩ := (dis_all S reg snake D env hkf).2.1 p.fields vs p.fields vs [] wire hdom henc
    p.name p.fields (wire ++ suf) suf fuel D.funcs [] [] rfl hk hfuel hvis
  refine ⟨rs, ?_, ?_⟩
  · simpa [ranges, hfind, bind, Option.bind] using hr
  · have hrun' : runStmts (wire ++ suf) (callFn (wire ++ suf) fuel) D.funcs (packetStmts S snake p) { offset := 0 } =
        some { offset := wire.length, vars := vars', out := rs } := by simpa [packetStmts] using hrun
    simp [dissect, hmain, hrun']

/-! ### Non-vacuity: a schema with a length prefix, a list of strings, a list of nested objects and a nested object,
its canonical dissector, a message, and what the theorem says about them (all evaluated by the kernel). -/

def disS : Schema :=
  { cfg := { le := true, strPfx := .u8, listPfx := .u16, pad := Pad.default },
    packets := [
      { name := "Order", root := true, fields := [
          { name := "Id", kind := .scalar .u32 },
          { name := "Note", kind := .dyn },
          { name := "Tags", kind := .dyn, rep := true },
          { name := "Legs", kind := .obj "Leg", rep := true },
          { name := "Main", kind := .obj "Leg" },
          { name := "Crc", kind := .checksum .u16 "CRC16" }] },
      { name := "Leg", fields := [
          { name := "No", kind := .scalar .u8 },
          { name := "Sym", kind := .fixed 4 Pad.default },
          { name := "Venue", kind := .dyn }] }] }

def disD : LProg :=
  { funcs := [{ name := fnName id "Leg", body := packetStmts disS id { name := "Leg", fields := [
      { name := "No", kind := .scalar .u8 }, { name := "Sym", kind := .fixed 4 Pad.default }, { name := "Venue", kind := .dyn }] } }],
    main := packetStmts disS id (disS.packets.head!) }

def disV : List Val :=
  [.int 7, .str [104, 105], .list [.str [97], .str []], .list [.struct [.int 1, .str [65, 66], .str [88]]],
   .struct [.int 2, .str [67], .str []], .int 0]

example : confDis disS id disD = true := by decide
example : keyFree disS = true := by decide
example : dFields disS (disS.packets.head!).fields disV = true := by decide
example : Wire.enc disS (fun _ => none) "Order" disV [] =
    some [7, 0, 0, 0, 2, 104, 105, 2, 0, 1, 97, 0, 1, 0, 1, 65, 66, 32, 32, 1, 88, 2, 67, 32, 32, 32, 0, 0, 0] := by decide
example : ranges disS id "Order" disV =
    some ([("Order_Id", 0, 4), ("Order_Note", 5, 2), ("Order_Tags", 10, 1), ("Order_Tags", 12, 0), ("Leg_No", 14, 1), ("Leg_Sym", 15, 4),
           ("Leg_Venue", 20, 1), ("Leg_No", 21, 1), ("Leg_Sym", 22, 4), ("Leg_Venue", 27, 0), ("Order_Crc", 27, 2)], 29) := by decide
/-- every hypothesis of `dissect_sound` holds for this schema, dissector and message (followed by two more bytes) -/
example : ∃ rs, ranges disS id "Order" disV = some (rs, 29) ∧
    dissect disD 3 ([7, 0, 0, 0, 2, 104, 105, 2, 0, 1, 97, 0, 1, 0, 1, 65, 66, 32, 32, 1, 88, 2, 67, 32, 32, 32, 0, 0, 0] ++ [9, 9]) = some (rs, 29) :=
  dissect_sound disS id disD (fun _ => none) (by decide) (by decide) "Order" (disS.packets.head!) (by decide) (by decide) disV (by decide)
    [7, 0, 0, 0, 2, 104, 105, 2, 0, 1, 97, 0, 1, 0, 1, 65, 66, 32, 32, 1, 88, 2, 67, 32, 32, 32, 0, 0, 0] (by decide) [9, 9] 3 (by decide)

end FinProtoc.Props
