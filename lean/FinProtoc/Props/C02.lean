import FinProtoc.Proofs.DecSound
import FinProtoc.Props.C01
/-!
# C02 — decoders invert encoders and consume exactly one message

Two layers (DESIGN §8 C02):

* `dec_sound` (proved, all inputs): for every schema, every accepted emitted program, every
  byte string — valid encoding or not — whenever the *declared* decoder `Wire.dec` reads field
  values `vs` and leaves `rest` unread, the emitted decoder reads exactly `vs` and leaves exactly
  `rest`.  This is what ties the printed text of the five targets to the specification.
* the specification-level round trip `Wire.dec (Wire.enc v ++ sfx) = (norm v, sfx)` is stated
  in `Props/C02Spec.lean` for the part of the value domain proved so far.
-/
namespace FinProtoc.Props
open FinProtoc FinProtoc.IR FinProtoc.Conforms FinProtoc.Wire

theorem dec_sound (S : Schema) (P : Prog) (hconf : confDec S P = true) (fuel : Nat) (pkt : String) (bs : Bytes)
    (vs : List Val) (rest : Bytes) (h : Wire.dec S fuel pkt bs = some (vs, rest)) :
    decStruct P fuel pkt bs = some (vs, rest) :=
  Proofs.dec_sound_all hconf fuel pkt bs (vs, rest) h

/-- C03 (decoder half): two accepted programs decode alike wherever the declared decoder is defined. -/
theorem dec_agree (S : Schema) (P₁ P₂ : Prog) (h₁ : confDec S P₁ = true) (h₂ : confDec S P₂ = true)
    (fuel : Nat) (pkt : String) (bs : Bytes) (vs : List Val) (rest : Bytes)
    (h : Wire.dec S fuel pkt bs = some (vs, rest)) :
    decStruct P₁ fuel pkt bs = decStruct P₂ fuel pkt bs := by
  rw [dec_sound S P₁ h₁ fuel pkt bs vs rest h, dec_sound S P₂ h₂ fuel pkt bs vs rest h]

/-! Non-vacuity: the schema of C01 with decoders; the bytes of the C01 message followed by a suffix. -/
def exPD : Prog :=
  { structs := [
      { name := "Msg", members := [⟨"Kind", "uint16"⟩, ⟨"Len", "uint32"⟩, ⟨"Body", "codec.BinaryCodec"⟩, ⟨"Ck", "uint32"⟩],
        enc := [],
        dec := [.scalar 2 true 0, .scalar 4 true 1, .dispatch 0 "NewMsgMessageByKind" 2, .scalar 4 true 3] },
      { name := "Logon", members := [⟨"User", "string"⟩, ⟨"Tags", "[]string"⟩],
        enc := [],
        dec := [.fixed 4 (some { ch := 48, left := true }) 0, .list 2 true .unsigned (.string 1 false .unsigned) 1] }],
    tables := [{ name := "NewMsgMessageByKind", entries := [(.int 1, "Logon")], keyWidth := some 2, errOnMiss := true }] }

example : confDec exS exPD = true := by decide
def exBytes : Bytes := [1, 0, 10, 0, 0, 0, 48, 48, 65, 66, 2, 0, 2, 104, 105, 0, 7, 0, 0, 0]
def exDecoded : List Val := [.int 1, .int 10, .dyn "Logon" [.str [65, 66], .list [.str [104, 105], .str []]], .int 7]
example : (Wire.dec exS 3 "Msg" (exBytes ++ [0xAB])).map (fun x => (beqList x.1 exDecoded, x.2)) = some (true, [0xAB]) := by decide
example : (decStruct exPD 3 "Msg" (exBytes ++ [0xAB])).map (fun x => (beqList x.1 exDecoded, x.2)) = some (true, [0xAB]) := by decide

end FinProtoc.Props
