import FinProtoc.Proofs.DecSound
import FinProtoc.Proofs.RoundTrip
import FinProtoc.Proofs.RoundTripC
import FinProtoc.Proofs.RoundTripM
import FinProtoc.Props.C01
/-!
# C02 — decoders invert encoders and consume exactly one message

Two layers (DESIGN §8 C02):

* `dec_sound` (proved, all inputs): for every schema, every accepted emitted program, every
  byte string — valid encoding or not — whenever the *declared* decoder `Wire.dec` reads field
  values `vs` and leaves `rest` unread, the emitted decoder reads exactly `vs` and leaves exactly
  `rest`.  This is what ties the printed text of the five targets to the specification.
* `spec_roundtrip_plain` (proved, all inputs of its domain): the declared decoder inverts the declared encoder on
  every *plain* message (`Wire.plainVal`: every field kind except match payloads and the computed members, any
  nesting, any list lengths within the prefix range), whatever bytes follow; with the two soundness theorems this gives
  `emitted_roundtrip_plain`: for every accepted emitted program, decoding what its own encoder wrote returns the
  message and consumes exactly it.
* `spec_roundtrip_computed` / `emitted_roundtrip_computed`: the same on the larger domain `Wire.cplainVal` that also
  admits length-of and checksum members with ANY caller value, for every registry; the decoded message equals the
  original up to those computed members (`Wire.eraseFields` overwrites them with 0 on both sides) — the "logically
  equal message" of the property.
* `spec_roundtrip_full` / `emitted_roundtrip_full` (C02 at full strength): every field kind, match payloads included.
  The domain `Wire.mVal` is "a message a sender can legitimately build": scalars within their width, strings and lists
  within their prefix range, fixed strings that survive pad/trim, any caller value in computed members, and for every match
  payload a key member (declared earlier in the packet) whose value selects the supplied payload packet.  For every
  schema, every accepted emitted program, every registry, every such message and every suffix: the emitted decoder applied
  to what the emitted encoder wrote returns the logically equal message and leaves exactly the suffix unread.
-/
namespace FinProtoc.Props
open FinProtoc FinProtoc.IR FinProtoc.Conforms FinProtoc.Wire

theorem dec_sound (S : Schema) (P : Prog) (hconf : confDec S P = true) (fuel : Nat) (pkt : String) (bs : Bytes)
    (vs : List Val) (rest : Bytes) (h : Wire.dec S fuel pkt bs = some (vs, rest)) :
    decStruct P fuel pkt bs = some (vs, rest) :=
  Proofs.dec_sound_all hconf fuel pkt bs (vs, rest) h

/-- the declared round trip on plain messages (specification level) -/
theorem spec_roundtrip_plain (S : Schema) (reg : Registry) (pkt : String) (vs : List Val) (acc r : Bytes)
    (hp : Wire.plainVal S (.obj pkt) (.struct vs) = true) (h : Wire.enc S reg pkt vs acc = some r) :
    ∃ xs, r = acc ++ xs ∧ ∀ fuel sfx, depthList vs < fuel → Wire.dec S fuel pkt (xs ++ sfx) = some (vs, sfx) :=
  Wire.dec_enc_plain S reg pkt vs acc r hp h

/-- C02 end to end for plain messages: an accepted emitted program decodes what it encoded, and consumes exactly it -/
theorem emitted_roundtrip_plain (S : Schema) (P : Prog) (hE : confEnc S P = true) (hD : confDec S P = true)
    (reg : Registry) (pkt : String) (vs : List Val) (bs : Bytes)
    (hp : Wire.plainVal S (.obj pkt) (.struct vs) = true)
    (hsafe : lenSafeVal S (.obj pkt) (.struct vs) = true)
    (hwire : Wire.enc S reg pkt vs [] = some bs) (fuel : Nat) (hfuel : depthList vs < fuel) :
    encStruct P reg fuel pkt vs [] = some bs ∧
      ∀ sfx, decStruct P fuel pkt (bs ++ sfx) = some (vs, sfx) := by
  refine ⟨enc_sound S P hE reg pkt vs [] bs hsafe hwire fuel hfuel, ?_⟩
  intro sfx
  obtain ⟨xs, hx, hd⟩ := Wire.dec_enc_plain S reg pkt vs [] bs hp hwire
  simp only [List.nil_append] at hx
  subst hx
  exact dec_sound S P hD fuel pkt _ vs sfx (hd fuel sfx hfuel)

/-- the declared round trip with length-of / checksum members, up to those members -/
theorem spec_roundtrip_computed (S : Schema) (reg : Registry) (pkt : String) (vs : List Val) (acc r : Bytes)
    (hp : Wire.cplainVal S (.obj pkt) (.struct vs) = true) (h : Wire.enc S reg pkt vs acc = some r) :
    ∃ xs, r = acc ++ xs ∧ ∀ fuel sfx, depthList vs < fuel →
      ∃ ds p, S.find pkt = some p ∧ Wire.dec S fuel pkt (xs ++ sfx) = some (ds, sfx) ∧
        Wire.eraseFields S p.fields ds = Wire.eraseFields S p.fields vs :=
  Wire.dec_enc_computed S reg pkt vs acc r hp h

/-- C02 end to end with computed members: an accepted emitted program decodes what it encoded, consumes exactly it, and
returns the logically equal message -/
theorem emitted_roundtrip_computed (S : Schema) (P : Prog) (hE : confEnc S P = true) (hD : confDec S P = true)
    (reg : Registry) (pkt : String) (vs : List Val) (bs : Bytes)
    (hp : Wire.cplainVal S (.obj pkt) (.struct vs) = true)
    (hsafe : lenSafeVal S (.obj pkt) (.struct vs) = true)
    (hwire : Wire.enc S reg pkt vs [] = some bs) (fuel : Nat) (hfuel : depthList vs < fuel) :
    encStruct P reg fuel pkt vs [] = some bs ∧
      ∀ sfx, ∃ ds p, S.find pkt = some p ∧ decStruct P fuel pkt (bs ++ sfx) = some (ds, sfx) ∧
        Wire.eraseFields S p.fields ds = Wire.eraseFields S p.fields vs := by
  refine ⟨enc_sound S P hE reg pkt vs [] bs hsafe hwire fuel hfuel, ?_⟩
  intro sfx
  obtain ⟨xs, hx, hd⟩ := Wire.dec_enc_computed S reg pkt vs [] bs hp hwire
  simp only [List.nil_append] at hx
  subst hx
  obtain ⟨ds, p, hfind, hdec, her⟩ := hd fuel sfx hfuel
  exact ⟨ds, p, hfind, dec_sound S P hD fuel pkt _ ds sfx hdec, her⟩

/-- the declared round trip, every field kind -/
theorem spec_roundtrip_full (S : Schema) (reg : Registry) (pkt : String) (vs : List Val) (acc r : Bytes)
    (hp : Wire.mVal S [] [] false (.obj pkt) (.struct vs) = true) (h : Wire.enc S reg pkt vs acc = some r) :
    ∃ xs, r = acc ++ xs ∧ ∀ fuel sfx, depthList vs < fuel →
      ∃ ds p, S.find pkt = some p ∧ Wire.dec S fuel pkt (xs ++ sfx) = some (ds, sfx) ∧
        Wire.eraseFields S p.fields ds = Wire.eraseFields S p.fields vs :=
  Wire.dec_enc_full S reg pkt vs acc r hp h

/-- C02: an accepted emitted program decodes what it encoded, consumes exactly that message, and returns the logically
equal message — for every legitimately built message of every field kind, every registry, every trailing bytes -/
theorem emitted_roundtrip_full (S : Schema) (P : Prog) (hE : confEnc S P = true) (hD : confDec S P = true)
    (reg : Registry) (pkt : String) (vs : List Val) (bs : Bytes)
    (hp : Wire.mVal S [] [] false (.obj pkt) (.struct vs) = true)
    (hsafe : lenSafeVal S (.obj pkt) (.struct vs) = true)
    (hwire : Wire.enc S reg pkt vs [] = some bs) (fuel : Nat) (hfuel : depthList vs < fuel) :
    encStruct P reg fuel pkt vs [] = some bs ∧
      ∀ sfx, ∃ ds p, S.find pkt = some p ∧ decStruct P fuel pkt (bs ++ sfx) = some (ds, sfx) ∧
        Wire.eraseFields S p.fields ds = Wire.eraseFields S p.fields vs := by
  refine ⟨enc_sound S P hE reg pkt vs [] bs hsafe hwire fuel hfuel, ?_⟩
  intro sfx
  obtain ⟨xs, hx, hd⟩ := Wire.dec_enc_full S reg pkt vs [] bs hp hwire
  simp only [List.nil_append] at hx
  subst hx
  obtain ⟨ds, p, hfind, hdec, her⟩ := hd fuel sfx hfuel
  exact ⟨ds, p, hfind, dec_sound S P hD fuel pkt _ ds sfx hdec, her⟩

/-- C03 (decoder half): two accepted programs decode alike wherever the declared decoder is defined. -/
theorem dec_agree (S : Schema) (P₁ P₂ : Prog) (h₁ : confDec S P₁ = true) (h₂ : confDec S P₂ = true)
    (fuel : Nat) (pkt : String) (bs : Bytes) (vs : List Val) (rest : Bytes)
    (h : Wire.dec S fuel pkt bs = some (vs, rest)) :
    decStruct P₁ fuel pkt bs = decStruct P₂ fuel pkt bs := by
  rw [dec_sound S P₁ h₁ fuel pkt bs vs rest h, dec_sound S P₂ h₂ fuel pkt bs vs rest h]

/-! Non-vacuity: the schema of C01 with decoders; the bytes of the C01 message followed by a suffix. -/
def exPD : Prog :=
  { structs := [
      { name := "Msg", members := [⟨"Kind", "uint16"⟩, ⟨"Len", "uint32"⟩, ⟨"Body", "codec.BinaryCodec"⟩, ⟨"Ck", "uint32"⟩],
        enc := [],
        dec := [.scalar 2 true 0, .scalar 4 true 1, .dispatch 0 "NewMsgMessageByKind" 2, .scalar 4 true 3] },
      { name := "Logon", members := [⟨"User", "string"⟩, ⟨"Tags", "[]string"⟩],
        enc := [],
        dec := [.fixed 4 (some { ch := 48, left := true }) 0, .list 2 true .unsigned (.string 1 false .unsigned) 1] }],
    tables := [{ name := "NewMsgMessageByKind", entries := [(.int 1, "Logon")], keyWidth := some 2, errOnMiss := true }] }

example : confDec exS exPD = true := by decide
def exBytes : Bytes := [1, 0, 10, 0, 0, 0, 48, 48, 65, 66, 2, 0, 2, 104, 105, 0, 7, 0, 0, 0]
def exDecoded : List Val := [.int 1, .int 10, .dyn "Logon" [.str [65, 66], .list [.str [104, 105], .str []]], .int 7]
example : (Wire.dec exS 3 "Msg" (exBytes ++ [0xAB])).map (fun x => (beqList x.1 exDecoded, x.2)) = some (true, [0xAB]) := by decide
example : (decStruct exPD 3 "Msg" (exBytes ++ [0xAB])).map (fun x => (beqList x.1 exDecoded, x.2)) = some (true, [0xAB]) := by decide

-- non-vacuity of the round trip: the Logon payload of the example is a plain message
example : Wire.plainVal exS (.obj "Logon") (.struct [.str [65, 66], .list [.str [104, 105], .str []]]) = true := by decide

-- non-vacuity of the full round trip: the message of C01 (match payload selected by Kind = 1, a length member holding the
-- caller's 999, a checksum member) is in the domain
example : Wire.mVal exS [] [] false (.obj "Msg") (.struct exV) = true := by decide

end FinProtoc.Props
