import FinProtoc.Driver
import FinProtoc.Generated.Facts
/-!
# C13 — compilation is deterministic

Go randomises the order of every `range` over a map.  Two things make the output independent of it:

* `lookup_build_perm` (proved): a file map filled by `output[name] = bytes` in ANY order of the
  entries has the same content for every name, provided the names are distinct;
  `lookup_build_mem`: and that content is the entry's.
* `map_sites_classified` (obligation re-checked against the facts REGENERATED from /repo's source on
  every run): every `range` over a map in `internal/parser`, `internal/model`, `cmd` is of a class
  whose result cannot depend on the order — it only stores into a map, or collects keys that are
  sorted afterwards, or only reads — or is the one known site that writes one file per entry.
  `ambient_sites_classified`: the only ambient inputs are the calendar year in the C++ header and
  `os.Args`.

The check also compiles each program of the run repeatedly in one process and compares the bytes.
-/
namespace FinProtoc.Props
open FinProtoc FinProtoc.Driver FinProtoc.Generated

theorem lookup_filter_ne (m : List (String × String)) (k k' : String) (h : k' ≠ k) :
    (m.filter (fun p => p.1 != k)).lookup k' = m.lookup k' := by
  induction m with
  | nil => rfl
  | cons a m ih =>
    obtain ⟨ak, av⟩ := a
    by_cases hak : ak = k
    · subst hak
      have hb : (k' == ak) = false := by simp [h]
      simp [List.filter, List.lookup, hb, ih]
    · have hne : (ak != k) = true := by simp [hak]
      simp only [List.filter, hne, List.lookup]
      cases hk : k' == ak <;> simp [ih]

theorem lookup_insert (m : List (String × String)) (k v k' : String) :
    (finsert m k v).lookup k' = if k' = k then some v else m.lookup k' := by
  unfold finsert
  by_cases h : k' = k
  · subst h; simp [List.lookup]
  · have hb : (k' == k) = false := by simp [h]
    simp only [List.lookup, hb, h, if_false]
    exact lookup_filter_ne m k k' h

/-- what a name maps to after building: the value of the LAST entry with that name -/
theorem lookup_build (pairs : List (String × String)) (k : String) :
    (build pairs).lookup k = (pairs.reverse.find? (·.1 = k)).map (·.2) := by
  unfold build
  suffices h : ∀ (m : List (String × String)), (pairs.foldl (fun m kv => finsert m kv.1 kv.2) m).lookup k =
      ((pairs.reverse.find? (·.1 = k)).map (·.2)).or (m.lookup k) by
    simpa using h []
  induction pairs with
  | nil => intro m; simp
  | cons a rest ih =>
    intro m
    simp only [List.foldl_cons, ih, lookup_insert, List.reverse_cons, List.find?_append]
    by_cases hk : a.1 = k
    · subst hk
      cases (rest.reverse.find? (·.1 = a.1)) <;> simp
    · have : ¬ k = a.1 := fun e => hk e.symm
      cases (rest.reverse.find? (·.1 = k)) <;> simp [hk, this]

theorem find_nodup_mem (pairs : List (String × String)) (hnd : (pairs.map (·.1)).Nodup) (kv : String × String) (h : kv ∈ pairs) :
    pairs.find? (·.1 = kv.1) = some kv := by
  induction pairs with
  | nil => cases h
  | cons a rest ih =>
    simp only [List.map_cons, List.nodup_cons] at hnd
    rcases List.mem_cons.mp h with h | h
    · subst h; simp
    · have hne : a.1 ≠ kv.1 := by
        intro e; apply hnd.1; rw [e]; exact List.mem_map_of_mem h
      simp [List.find?_cons, hne, ih hnd.2 h]

/-- with distinct names every entry is found, in whatever order the entries were inserted -/
theorem lookup_build_mem (pairs : List (String × String)) (hnd : (pairs.map (·.1)).Nodup) (kv : String × String) (h : kv ∈ pairs) :
    (build pairs).lookup kv.1 = some kv.2 := by
  rw [lookup_build]
  have hnd' : (pairs.reverse.map (·.1)).Nodup := by rw [List.map_reverse]; exact ((List.reverse_perm (pairs.map (·.1))).nodup_iff).mpr hnd
  rw [find_nodup_mem pairs.reverse hnd' kv (List.mem_reverse.mpr h)]
  rfl

theorem lookup_build_not_mem (pairs : List (String × String)) (k : String) (h : k ∉ pairs.map (·.1)) :
    (build pairs).lookup k = none := by
  rw [lookup_build]
  have : pairs.reverse.find? (·.1 = k) = none := by
    apply List.find?_eq_none.mpr
    intro x hx hxk
    simp at hxk
    apply h; rw [← hxk]; exact List.mem_map_of_mem (List.mem_reverse.mp hx)
  rw [this]; rfl

/-- C13 core: the file map does not depend on the iteration order -/
theorem lookup_build_perm (l l' : List (String × String)) (hp : l.Perm l') (hnd : (l.map (·.1)).Nodup) (k : String) :
    (build l).lookup k = (build l').lookup k := by
  have hnd' : (l'.map (·.1)).Nodup := (hp.map (·.1)).nodup_iff.mp hnd
  by_cases hk : k ∈ l.map (·.1)
  · obtain ⟨kv, hmem, rfl⟩ := List.mem_map.mp hk
    rw [lookup_build_mem l hnd kv hmem, lookup_build_mem l' hnd' kv (hp.mem_iff.mp hmem)]
  · have hk' : k ∉ l'.map (·.1) := fun h => hk ((hp.map (·.1)).mem_iff.mpr h)
    rw [lookup_build_not_mem l k hk, lookup_build_not_mem l' k hk']

/-! ## Obligations over the regenerated facts -/

def orderFreeClasses : List String := ["store-into-map", "collect-then-sort", "read-only"]
/-- the one site that does I/O per entry: `WriteCodeToFile` writes one file per name (the set of files does not depend on the order) -/
def knownIoSites : List (String × String × String) := [("common.go", "WriteCodeToFile", "codeMap")]

theorem map_sites_classified :
    ∀ s ∈ mapRangeSites, s.cls ∈ orderFreeClasses ∨ (s.file, s.func, s.expr) ∈ knownIoSites := by decide

theorem ambient_sites_classified :
    ambientSites.map (fun s => (s.file, s.expr)) =
      [("cpp_generator.go", "time.Now"), ("cpp_generator.go", "time.Now"), ("root.go", "os.Args")] := by decide

example : (build [("a.go", "1"), ("b.go", "2")]).lookup "a.go" = (build [("b.go", "2"), ("a.go", "1")]).lookup "a.go" := by decide

end FinProtoc.Props
