import FinProtoc.Proofs.EncSound
/-!
# C01 — encoders emit exactly the wire layout the DSL declares

`enc_sound`: for EVERY schema `S`, EVERY extracted program `P` the validator accepts,
every checksum registry, packet, message, preceding buffer and sufficient fuel, running
the emitted encoder (`IR.encStruct`, the operational semantics of the printed text) yields
exactly `Wire.enc` (the declarative layout).  The check evaluates `confEnc S P` on the IR
extracted from the text the real generators print, for every program of a run.
-/
namespace FinProtoc.Props
open FinProtoc FinProtoc.IR FinProtoc.Conforms FinProtoc.Wire

theorem enc_sound (S : Schema) (P : Prog) (hconf : confEnc S P = true) (reg : Registry)
    (pkt : String) (vs : List Val) (acc r : Bytes)
    (hsafe : lenSafeVal S (.obj pkt) (.struct vs) = true)
    (hwire : Wire.enc S reg pkt vs acc = some r) :
    ∀ fuel, depthList vs < fuel → encStruct P reg fuel pkt vs acc = some r :=
  fun fuel hd => Proofs.callOK_all hconf reg fuel pkt vs acc r hd hsafe hwire

/-! Non-vacuity: a concrete schema with a length field, a match payload, a fixed string, a
list and a checksum; a concrete conforming program; a concrete message. -/
def exS : Schema :=
  { cfg := { le := true, strPfx := .u8, listPfx := .u16, pad := Pad.default },
    packets := [
      { name := "Msg", root := true, fields := [
          { name := "Kind", kind := .scalar .u16 },
          { name := "Len", kind := .lengthOf .u32 "Body" },
          { name := "Body", kind := .matchOn "Kind" [(.int 1, "Logon")] },
          { name := "Ck", kind := .checksum .u32 "\"CRC32\"" }] },
      { name := "Logon", fields := [
          { name := "User", kind := .fixed 4 { ch := 48, left := true } },
          { name := "Tags", kind := .dyn, rep := true }] }] }

def exP : Prog :=
  { structs := [
      { name := "Msg", members := [⟨"Kind", "uint16"⟩, ⟨"Len", "uint32"⟩, ⟨"Body", "codec.BinaryCodec"⟩, ⟨"Ck", "uint32"⟩],
        enc := [.scalar 2 true 0, .slot 4 true "bodyPos", .mark "bodyStart", .dynamic 2, .mark "bodyEnd",
                .patch 4 true "bodyPos" "bodyStart" "bodyEnd" (some 4), .checksum "\"CRC32\"" 4 true 3],
        dec := [] },
      { name := "Logon", members := [⟨"User", "string"⟩, ⟨"Tags", "[]string"⟩],
        enc := [.fixed 4 (some { ch := 48, left := true }) 0, .list 2 true (.string 1 false .unsigned) 1],
        dec := [] }],
    tables := [] }

def exV : List Val := [.int 1, .int 999, .dyn "Logon" [.str [65, 66], .list [.str [104, 105], .str []]], .int 7]

example : confEnc exS exP = true := by decide
example : lenSafeVal exS (.obj "Msg") (.struct exV) = true := by decide
example : Wire.enc exS (fun _ => none) "Msg" exV [] =
    some [1, 0, 10, 0, 0, 0, 48, 48, 65, 66, 2, 0, 2, 104, 105, 0, 7, 0, 0, 0] := by decide
example : encStruct exP (fun _ => none) 3 "Msg" exV [] =
    some [1, 0, 10, 0, 0, 0, 48, 48, 65, 66, 2, 0, 2, 104, 105, 0, 7, 0, 0, 0] := by decide

end FinProtoc.Props
