import FinProtoc.Driver
import FinProtoc.Generated.Facts
/-!
# C14 — targets are generated independently of one another

* `no_model_writes` (obligation re-checked against the facts REGENERATED from /repo's source on every
  run): no assignment in generator or `cmd` code has an l-value reached through a pointer into the
  parsed model (`*model.Padding`, `*model.Field`, …).  On the pinned tree there were five
  (`GetPadding` rewrote `Padding.PadChar` in place) — repaired by a `fix:` commit.
* `no_global_writes` (obligation, same regenerated facts): outside `init` and the entry point
  `root.go`, no code of `internal/parser` or `cmd` assigns a package-level variable (its own or an
  imported package's), stores into a package-level container (`sync.Map.Store`, …), or calls a
  function of a third-party dependency that does so transitively inside its package
  (`strcase.ConfigureAcronym` writes `strcase.uppercaseAcronym`, which every later `ToCamel` of the
  process reads — seeded/C14d).  This is what makes `Gen M := M → Files × M` the right type: a
  generator's output is a function of the model alone.  Heuristic limits: aliases of a package
  variable and state behind interfaces are not followed; the process-separated comparison of the
  check (one CLI process per target vs one process for all) covers those dynamically.
* `driver_independent` (proved): if no generator changes the model, then whatever generators run
  before it, in whatever order and subset, each generator produces exactly what it produces alone
  on the freshly parsed model.

The check also runs the real generators over one shared model in the CLI order for subsets, and in
random orders, and compares every target's files with a fresh single-target run.
-/
namespace FinProtoc.Props
open FinProtoc FinProtoc.Driver FinProtoc.Generated

/-- a generator that leaves the model as it found it.  `M` is EVERYTHING a generator can read between two runs: the parsed
model and the process-global state (package variables, configuration tables of imported libraries); `no_model_writes` and
`no_global_writes` are the two halves of this hypothesis for the real generators. -/
def Frame {M : Type} (g : Gen M) : Prop := ∀ m, (g m).2 = m

theorem runAll_frame {M : Type} (gs : List (Gen M)) (hf : ∀ g ∈ gs, Frame g) (m : M) :
    runAll gs m = gs.map fun g => (g m).1 := by
  induction gs with
  | nil => rfl
  | cons g gs ih =>
    have hg : (g m).2 = m := hf g (by simp) m
    simp only [runAll, List.map_cons, hg]
    rw [ih (fun g' hg' => hf g' (by simp [hg']))]

/-- whichever generators run before `g` (any subset, any order), `g` sees the original model -/
theorem driver_independent {M : Type} (before : List (Gen M)) (g : Gen M) (after : List (Gen M))
    (hf : ∀ g' ∈ before ++ g :: after, Frame g') (m : M) :
    (runAll (before ++ g :: after) m)[before.length]? = some (g m).1 := by
  rw [runAll_frame _ hf m]
  simp

theorem no_model_writes : modelWriteSites = [] := by decide

theorem no_global_writes : ∀ s ∈ globalWriteSites, s.file = "root.go" := by decide

/-- non-vacuity: a generator that does rewrite the model changes what the next one prints -/
example : runAll [(fun (m : Nat) => ([("a", toString m)], m + 1)), (fun m => ([("b", toString m)], m))] 0
    ≠ [[("a", "0")], [("b", "0")]] := by decide

end FinProtoc.Props
