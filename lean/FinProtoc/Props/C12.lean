import FinProtoc.Visit
import FinProtoc.Generated.Facts
/-!
# C12 — ill-formed DSL is rejected at the right line; well-formed DSL is accepted

Theorems about the validation steps of the visitor MODEL (`Visit`, a statement-by-statement
model of `model.go` / `packet_dsl_parser.go`, tied to the real code on every run by the
differential `model` op: diagnostics lists and whole model dumps must agree):

* each offence class that the code checks yields exactly the diagnostic naming it, at the line of
  the offending (later) declaration, and leaves the model otherwise untouched;
* a declaration that commits no offence yields no diagnostic.

The classes the code does NOT check today (duplicate field, duplicate match key, unknown key
field, unknown length target, unknown match target) have no theorem here; they are findings,
see DESIGN §9 / KNOWN_FINDINGS.txt.  The all-programs lifting (`validate_sound/complete` against a
declarative `WF`) is staged.
-/
namespace FinProtoc.Props
open FinProtoc FinProtoc.Visit

/-- duplicate packet: rejected with the line of the later declaration; the model is unchanged -/
theorem dup_packet_diag (s : VState) (p : MPacket) (h : s.packets.any (·.name = p.name) = true) :
    addPacketS p s = { s with diags := s.diags ++ [(p.line, "Duplicate packet definition for " ++ p.name)] } := by
  simp [addPacketS, h, VState.diag]

/-- a second root packet is rejected at its own line (it is still recorded as a packet) -/
theorem second_root_diag (s : VState) (p : MPacket) (hnew : s.packets.any (·.name = p.name) = false)
    (hroot : p.root = true) (hr : s.root.isSome = true) :
    addPacketS p s = { s with packets := s.packets ++ [p], diags := s.diags ++ [(p.line, "Multiple root packets are not allowed")] } := by
  simp [addPacketS, hnew, hroot, hr, VState.diag]

/-- a packet with a fresh name (and not a second root) is accepted silently -/
theorem fresh_packet_ok (s : VState) (p : MPacket) (hnew : s.packets.any (·.name = p.name) = false)
    (hroot : p.root = false ∨ s.root = none) :
    (addPacketS p s).diags = s.diags ∧ (addPacketS p s).packets = s.packets ++ [p] := by
  simp only [addPacketS, hnew, Bool.false_eq_true, ↓reduceIte, VState.diag]
  rcases hroot with h | h
  · simp only [h, Bool.false_eq_true, ↓reduceIte, and_self]
  · cases hr : p.root
    · simp only [Bool.false_eq_true, ↓reduceIte, and_self]
    · simp only [↓reduceIte, h, Option.isSome_none, Bool.false_eq_true, and_self]

/-- duplicate MetaData entry -/
theorem dup_meta_diag (s : VState) (m : MMeta) (h : (findMeta s m.name).isSome = true) :
    addMetaS m s = { s with diags := s.diags ++ [(m.line, "Duplicate metadata definition for " ++ m.name)] } := by
  simp [addMetaS, h, VState.diag]

theorem fresh_meta_ok (s : VState) (m : MMeta) (h : (findMeta s m.name).isSome = false) :
    addMetaS m s = { s with metas := s.metas ++ [m] } := by
  simp [addMetaS, h]

/-- unknown option: rejected at its line, nothing stored -/
theorem unknown_option_diag (s : VState) (name value : String) (line : Nat) (h : optionValues name = none) :
    addOptionS name value line s =
      { s with diags := s.diags ++ [(line, "Option " ++ name ++ " is not allowed in this context, Expected one of:" ++ ",".intercalate optionNames)] } := by
  simp [addOptionS, h, VState.diag]

/-- illegal option value: a diagnostic naming option and value at its line -/
theorem bad_option_value_diag (s : VState) (name value : String) (line : Nat) (vals : List String)
    (h : optionValues name = some vals) (hne : vals.isEmpty = false) (hbad : vals.contains value = false) :
    (line, "Option " ++ name ++ " is not allowed to be " ++ value ++ ", Expected one of:" ++ ",".intercalate vals)
      ∈ (addOptionS name value line s).diags := by
  simp only [addOptionS, h, hne, hbad, VState.diag, Bool.not_false, Bool.and_self, ↓reduceIte]
  split <;> simp

/-- duplicate option -/
theorem dup_option_diag (s : VState) (name value : String) (line : Nat) (vals : List String)
    (h : optionValues name = some vals) (hok : vals.isEmpty = true ∨ vals.contains value = true)
    (hd : (s.options.lookup name).isSome = true) :
    addOptionS name value line s = { s with diags := s.diags ++ [(line, "Option " ++ name ++ " is already defined")] } := by
  have hc : (!vals.isEmpty && !vals.contains value) = false := by
    rcases hok with hok | hok
    · simp [hok]
    · rw [hok]; simp
  simp only [addOptionS, h, hc, Bool.false_eq_true, ↓reduceIte, hd, VState.diag]

/-- a documented option with an allowed value, set once, is accepted silently -/
theorem good_option_ok (s : VState) (name value : String) (line : Nat) (vals : List String)
    (h : optionValues name = some vals) (hok : vals.isEmpty = true ∨ vals.contains value = true)
    (hd : (s.options.lookup name).isSome = false) :
    addOptionS name value line s = { s with options := s.options ++ [(name, value)] } := by
  have hc : (!vals.isEmpty && !vals.contains value) = false := by
    rcases hok with hok | hok
    · simp [hok]
    · rw [hok]; simp
  simp only [addOptionS, h, hc, Bool.false_eq_true, ↓reduceIte, hd]

/-- non-vacuity -/
example : (addPacketS { name := "A", root := false, fields := [], line := 7 }
            { packets := [{ name := "A", root := true, fields := [], line := 1 }] }).diags = [(7, "Duplicate packet definition for A")] := by
  decide

/-- the documented pad-character spelling `'\x00'` (as the lexer delivers it: backslash, x, 0, 0) is an allowed value.
On the pinned tree it was not (the table held a raw NUL only): a genuine defect, repaired by a `fix:` commit. -/
theorem padchar_nul_accepted : (optionValues "FixedStringPadChar").map (·.contains "'\\x00'") = some true := by decide

/-! ## T1: the option table of the visitor model is the table of `model.go` as it stands now

`Generated.optionsTable` is rewritten from `var options` of `/repo/internal/model/model.go` by `tools/facts` on every run of this
check (constants evaluated by go/types), so these two closed facts are re-checked against what the code says now: an option added,
removed or given another list of allowed values breaks the build of this module. -/

theorem options_table_tied : ∀ kv ∈ Generated.optionsTable, optionValues kv.1 = some kv.2 := by decide

theorem option_names_tied : Generated.optionsTable.map (·.1) = optionNames := by decide

end FinProtoc.Props
