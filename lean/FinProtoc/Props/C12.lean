import FinProtoc.Visit
import FinProtoc.Generated.Facts
import FinProtoc.Proofs.VisitDiag
import FinProtoc.Proofs.VisitDiag2
import FinProtoc.Dsl.Parser
/-!
# C12 — ill-formed DSL is rejected at the right line; well-formed DSL is accepted

Theorems about the validation steps of the visitor MODEL (`Visit`, a statement-by-statement
model of `model.go` / `packet_dsl_parser.go`, tied to the real code on every run by the
differential `model` op: diagnostics lists and whole model dumps must agree):

* each offence class that the code checks yields exactly the diagnostic naming it, at the line of
  the offending (later) declaration, and leaves the model otherwise untouched;
* a declaration that commits no offence yields no diagnostic.

Whole-run theorems (second half of this file, helper lemmas in `Proofs/VisitDiag.lean`) lift these facts through the
loops of the visitor, for every concrete syntax tree `c`:

* A `diags_monotone`, `diags_monotone_steps`, `model_monotone`: diagnostics (and packets, MetaData entries, options) are
  only ever appended to;
* B `dup_packet_run`, `second_root_run`, `dup_meta_run`, `unknown_option_run`, `bad_option_value_run`, `dup_option_run`:
  the offence in the file ⇒ its diagnostic, at the line of the offending declaration, in `(Visit.run c).diags`;
* C `dup_field_run`, `len_nonroot_run`: the same for a duplicate field and for a length field outside the root packet;
* D `wf_accepted_partial` (a well-formed file of the flat fragment is accepted without diagnostics) and
  `clean_run_sound` (a run without diagnostics has none of the offences of B and C);
* E (helper lemmas in `Proofs/VisitDiag2.lean`) `unknown_field_type_run`, `unknown_match_target_run` (both diagnosed by
  `ResolveDependencies`, followed through the in-place updates of the attribute slot by the relation `Evo`),
  `dup_match_key_run`, `dup_len_run`, `unknown_len_target_run`, `len_target_before_run`, `unknown_key_field_run`,
  `unknown_meta_ref_run`, and
  `clean_run_sound_ext` (a run without diagnostics has none of these offences and at most one root packet);
* F `wf_accepted_refs_partial` (flat fragment + `RefMetaData` entries naming an earlier entry) and
  `wf_accepted_calc_partial` (+ prefix `@calculatedFrom` on fields that are not `char[n]`).

  Nested: `dup_match_key_nested_run`, `len_in_inline_run`, `unknown_key_in_inline_run` (offences inside inline objects, at
  any depth, `SubFd`).

Not lifted yet: the recursion diagnostic and the unknown packet types / match targets of fields INSIDE inline objects (their
diagnostics are modelled and compared with the real code by the differential `model` op), and the acceptance theorem for
files with length fields, packet-typed fields, inline objects and match fields (the full `WF` is spelled out at
`wf_accepted_partial`; the packet-level part of the acceptance proof is already stated for every field whose visit is
silent and yields a basic / `char[n]` / string / checksum attribute, `QuietFieldSem`).
-/
namespace FinProtoc.Props
open FinProtoc FinProtoc.Visit

/-- duplicate packet: rejected with the line of the later declaration; the model is unchanged -/
theorem dup_packet_diag (s : VState) (p : MPacket) (h : s.packets.any (·.name = p.name) = true) :
    addPacketS p s = { s with diags := s.diags ++ [(p.line, "Duplicate packet definition for " ++ p.name)] } := by
  simp [addPacketS, h, VState.diag]

/-- a second root packet is rejected at its own line (it is still recorded as a packet) -/
theorem second_root_diag (s : VState) (p : MPacket) (hnew : s.packets.any (·.name = p.name) = false)
    (hroot : p.root = true) (hr : s.root.isSome = true) :
    addPacketS p s = { s with packets := s.packets ++ [p], diags := s.diags ++ [(p.line, "Multiple root packets are not allowed")] } := by
  simp [addPacketS, hnew, hroot, hr, VState.diag]

/-- a packet with a fresh name (and not a second root) is accepted silently -/
theorem fresh_packet_ok (s : VState) (p : MPacket) (hnew : s.packets.any (·.name = p.name) = false)
    (hroot : p.root = false ∨ s.root = none) :
    (addPacketS p s).diags = s.diags ∧ (addPacketS p s).packets = s.packets ++ [p] := by
  simp only [addPacketS, hnew, Bool.false_eq_true, ↓reduceIte, VState.diag]
  rcases hroot with h | h
  · simp only [h, Bool.false_eq_true, ↓reduceIte, and_self]
  · cases hr : p.root
    · simp only [Bool.false_eq_true, ↓reduceIte, and_self]
    · simp only [↓reduceIte, h, Option.isSome_none, Bool.false_eq_true, and_self]

/-- duplicate MetaData entry -/
theorem dup_meta_diag (s : VState) (m : MMeta) (h : (findMeta s m.name).isSome = true) :
    addMetaS m s = { s with diags := s.diags ++ [(m.line, "Duplicate metadata definition for " ++ m.name)] } := by
  simp [addMetaS, h, VState.diag]

theorem fresh_meta_ok (s : VState) (m : MMeta) (h : (findMeta s m.name).isSome = false) :
    addMetaS m s = { s with metas := s.metas ++ [m] } := by
  simp [addMetaS, h]

/-- unknown option: rejected at its line, nothing stored -/
theorem unknown_option_diag (s : VState) (name value : String) (line : Nat) (h : optionValues name = none) :
    addOptionS name value line s =
      { s with diags := s.diags ++ [(line, "Option " ++ name ++ " is not allowed in this context, Expected one of:" ++ ",".intercalate optionNames)] } := by
  simp [addOptionS, h, VState.diag]

/-- illegal option value: a diagnostic naming option and value at its line -/
theorem bad_option_value_diag (s : VState) (name value : String) (line : Nat) (vals : List String)
    (h : optionValues name = some vals) (hne : vals.isEmpty = false) (hbad : vals.contains value = false) :
    (line, "Option " ++ name ++ " is not allowed to be " ++ value ++ ", Expected one of:" ++ ",".intercalate vals)
      ∈ (addOptionS name value line s).diags := by
  simp only [addOptionS, h, hne, hbad, VState.diag, Bool.not_false, Bool.and_self, ↓reduceIte]
  split <;> simp

/-- duplicate option -/
theorem dup_option_diag (s : VState) (name value : String) (line : Nat) (vals : List String)
    (h : optionValues name = some vals) (hok : vals.isEmpty = true ∨ vals.contains value = true)
    (hd : (s.options.lookup name).isSome = true) :
    addOptionS name value line s = { s with diags := s.diags ++ [(line, "Option " ++ name ++ " is already defined")] } := by
  have hc : (!vals.isEmpty && !vals.contains value) = false := by
    rcases hok with hok | hok
    · simp [hok]
    · rw [hok]; simp
  simp only [addOptionS, h, hc, Bool.false_eq_true, ↓reduceIte, hd, VState.diag]

/-- a documented option with an allowed value, set once, is accepted silently -/
theorem good_option_ok (s : VState) (name value : String) (line : Nat) (vals : List String)
    (h : optionValues name = some vals) (hok : vals.isEmpty = true ∨ vals.contains value = true)
    (hd : (s.options.lookup name).isSome = false) :
    addOptionS name value line s = { s with options := s.options ++ [(name, value)] } := by
  have hc : (!vals.isEmpty && !vals.contains value) = false := by
    rcases hok with hok | hok
    · simp [hok]
    · rw [hok]; simp
  simp only [addOptionS, h, hc, Bool.false_eq_true, ↓reduceIte, hd]

/-- non-vacuity -/
example : (addPacketS { name := "A", root := false, fields := [], line := 7 }
            { packets := [{ name := "A", root := true, fields := [], line := 1 }] }).diags = [(7, "Duplicate packet definition for A")] := by
  decide

/-- the documented pad-character spelling `'\x00'` (as the lexer delivers it: backslash, x, 0, 0) is an allowed value.
On the pinned tree it was not (the table held a raw NUL only): a genuine defect, repaired by a `fix:` commit. -/
theorem padchar_nul_accepted : (optionValues "FixedStringPadChar").map (·.contains "'\\x00'") = some true := by decide

/-! # Whole runs: `Visit.run c` for every concrete syntax tree `c`

The theorems above speak about one `AddPacket` / `AddMetaData` / `AddOption` on an arbitrary state.  The theorems below
lift them through the loops of the visitor (`Proofs/VisitDiag.lean`): they speak about the diagnostics list of the whole
run.  `Visit.run c = .ok s` always holds for some `s` (`visit_no_crash`, C11). -/

open FinProtoc.Dsl

/-! ## A. Diagnostics are only ever appended -/

/-- the computation, if it returns, leaves the diagnostics issued so far in place and only appends to them -/
def AppendsOnly (m : V α) : Prop :=
  ∀ (s : VState) (a : α) (s' : VState), m s = .ok (a, s') → ∃ l, s'.diags = s.diags ++ l

/-- the frame relation `Grow` of `Proofs/VisitDiag.lean` (every list of the state is only appended to) gives `AppendsOnly` -/
theorem appendsOnly_of_grows {m : V α} (h : Grows m) : AppendsOnly m :=
  fun s a s' e => (h.out s a s' e).diags

/-- **A (steps).** Every step function of the visitor model only appends to the diagnostics: visiting a type, a field
definition (inline objects included), a field with its attributes, the two loops and the length check of a packet
definition, a whole packet definition, `resolveFields`, the recursion check, `ResolveDependencies`, and at the top level
one MetaData entry, one option, one packet (visit + `AddPacket`). -/
theorem diags_monotone_steps :
    (∀ ty n, AppendsOnly (tyAttr ty n)) ∧ (∀ fd, AppendsOnly (visitFieldDef fd)) ∧ (∀ f, AppendsOnly (visitFieldWA f)) ∧
    (∀ r n acc f, AppendsOnly (pktStep1 r n acc f)) ∧ (∀ fs ls fm lf, AppendsOnly (pktLenCheck fs ls fm lf)) ∧
    (∀ lf fm ls fs i, AppendsOnly (pktStep2 lf fm ls fs i)) ∧ (∀ p, AppendsOnly (visitPacketDef p)) ∧
    (∀ n fs, AppendsOnly (resolveFields n fs)) ∧ AppendsOnly checkRecursion ∧ AppendsOnly resolveDeps ∧
    (∀ e, AppendsOnly (metaEntryStep e)) ∧ (∀ od, AppendsOnly (optDeclStep od)) ∧ (∀ d, AppendsOnly (packetStep d)) :=
  ⟨fun _ _ => appendsOnly_of_grows (tyAttr_frames ..).grows, fun _ => appendsOnly_of_grows (visitFieldDef_frames _).grows,
   fun _ => appendsOnly_of_grows (visitFieldWA_frames _).grows, fun _ _ _ _ => appendsOnly_of_grows (pktStep1_frames ..).grows,
   fun _ _ _ _ => appendsOnly_of_grows (pktLenCheck_frames ..).grows, fun _ _ _ _ _ => appendsOnly_of_grows (pktStep2_frames ..).grows,
   fun _ => appendsOnly_of_grows (visitPacketDef_frames _).grows, fun _ _ => appendsOnly_of_grows (resolveFields_frames ..).grows,
   appendsOnly_of_grows checkRecursion_frames.grows, appendsOnly_of_grows resolveDeps_frames.grows,
   fun _ => appendsOnly_of_grows (metaEntryStep_grows _), fun _ => appendsOnly_of_grows (optDeclStep_grows _),
   fun _ => appendsOnly_of_grows (packetStep_grows _)⟩

/-- **A.** `VisitPacket` as a whole, started in any state: the diagnostics present at the start are a prefix of the
diagnostics at the end.  A diagnostic, once issued, is never retracted or reordered. -/
theorem diags_monotone (c : Cst) : AppendsOnly (visitCst c) := appendsOnly_of_grows (visitCst_grows c)

/-- the same for the other lists of the model: packets, MetaData entries and options are only appended to, and the root
packet, once set, is never replaced -/
theorem model_monotone (c : Cst) (s s' : VState) (h : visitCst c s = .ok (⟨⟩, s')) :
    (∃ l, s'.packets = s.packets ++ l) ∧ (∃ l, s'.metas = s.metas ++ l) ∧ (∃ l, s'.options = s.options ++ l) ∧
      (s.root.isSome = true → s'.root = s.root) :=
  have g := (visitCst_grows c).out s ⟨⟩ s' h
  ⟨g.packets, g.metas, g.options, g.root⟩

/-! ## B. Offence ⇒ diagnostic at the line of the offending declaration, whole run -/

/-- **B, duplicate packet.** If the file defines a packet `p` and, later, a packet `q` with the same name, the run reports
`Duplicate packet definition for <name>` at the first line of `q` (its `root` keyword if it has one, else `packet`). -/
theorem dup_packet_run (c : Cst) (p q : PacketDef) (s : VState)
    (hb : Before c.defs (.packet p) (.packet q)) (hn : p.name.text = q.name.text) (hr : Visit.run c = .ok s) :
    (q.start.line, "Duplicate packet definition for " ++ q.name.text) ∈ s.diags := by
  obtain ⟨l1, l2, l3, hc⟩ := hb
  refine diag_of_phase3 ?_ hr
  intro s2 _ _
  rw [hc]
  refine forM_offence2 packetStep_grows (fun s => hasPk s q.name.text) (fun _ _ hg h => hasPk_grow hg h)
    _ _ l1 l2 l3 _ (fun _ => True) (fun _ => True) s2 (wlp_true _ _) ?_ (wlp_true _ _) ?_
  · intro s _
    rw [← hn]; exact packetStep_registers p s
  · intro s h _
    exact packetStep_dup q s h

/-- **B, second root packet.** If the file defines a root packet `p` and, later, a root packet `q`, and neither repeats
the name of a packet defined before it, the run reports `Multiple root packets are not allowed` at the first line of `q`. -/
theorem second_root_run (c : Cst) (p q : PacketDef) (l1 l2 l3 : List TopDef) (s : VState)
    (hc : c.defs = l1 ++ .packet p :: (l2 ++ .packet q :: l3))
    (hp : p.root.isSome = true) (hq : q.root.isSome = true)
    (hpn : p.name.text ∉ packetNames l1) (hqn : q.name.text ∉ packetNames (l1 ++ .packet p :: l2))
    (hr : Visit.run c = .ok s) :
    (q.start.line, "Multiple root packets are not allowed") ∈ s.diags := by
  refine diag_of_phase3 ?_ hr
  intro s2 hn2 _
  rw [hc]
  refine forM_offence2 packetStep_grows (fun s => s.root.isSome = true) ?_
    _ _ l1 l2 l3 _ (PkFrom l1) (PkFrom (l1 ++ .packet p :: l2)) s2 (packetLoop_pkFrom _ s2 hn2.1) ?_
    (packetLoop_pkFrom _ s2 hn2.1) ?_
  · intro s s' hg h
    rw [hg.root h]; exact h
  · intro s h
    exact packetStep_root p s hp (not_hasPk_of_pkFrom h (fun r hr e => hpn (e ▸ mem_packetNames hr)))
  · intro s h1 h2
    exact packetStep_secondRoot q s hq (not_hasPk_of_pkFrom h2 (fun r hr e => hqn (e ▸ mem_packetNames hr))) h1

/-- **B, duplicate MetaData entry.** If a MetaData declaration `d1` stands before a MetaData declaration `d2` with the same
name (in the same or in a later `MetaData` block), the run reports `Duplicate metadata definition for <name>` at the line
of `d2` (the line of its type). -/
theorem dup_meta_run (c : Cst) (d1 d2 : MetaDecl) (s : VState)
    (hb : Before (metaEntries c) (.decl d1) (.decl d2)) (hn : d1.name.text = d2.name.text) (hr : Visit.run c = .ok s) :
    (d2.ty.start.line, "Duplicate metadata definition for " ++ d2.name.text) ∈ s.diags := by
  obtain ⟨l1, l2, l3, hc⟩ := hb
  refine diag_of_phase1 ?_ hr
  rw [metaLoop_eq]
  unfold metaEntries at hc
  rw [hc]
  refine forM_offence2 metaEntryStep_grows (fun s => (findMeta s d2.name.text).isSome = true)
    (fun _ _ hg h => findMeta_grow hg h) _ _ l1 l2 l3 _ (fun _ => True) (fun _ => True) _ (wlp_true _ _) ?_ (wlp_true _ _) ?_
  · intro s _
    rw [← hn]; exact metaDecl_registers d1 s
  · intro s h _
    exact metaDecl_dup d2 s h

/-- **B, unknown option.** An option declaration whose name is not one of the eight documented option names is reported
at its line, with the list of the documented names. -/
theorem unknown_option_run (c : Cst) (od : OptDecl) (s : VState) (hm : od ∈ optDecls c)
    (hu : od.name.text ∉ optionNames) (hr : Visit.run c = .ok s) :
    (od.name.line, "Option " ++ od.name.text ++ " is not allowed in this context, Expected one of:" ++
      ",".intercalate optionNames) ∈ s.diags := by
  obtain ⟨l1, l2, hc⟩ := List.append_of_mem hm
  refine diag_of_phase2 ?_ hr
  intro s1
  rw [optLoop_eq]
  unfold optDecls at hc
  rw [hc]
  exact forM_offence1 optDeclStep_grows od l1 l2 _ (fun _ => True) s1 (wlp_true _ _)
    (fun s _ => optDecl_unknown od s (optionValues_none hu))

/-- **B, illegal option value.** An option declaration of a documented option with a closed list of values (`vals`, not
empty) whose value is not in the list is reported at its line, naming option, value and the allowed values.
`optValueOf od` is the value as written (a string literal without its quotes). -/
theorem bad_option_value_run (c : Cst) (od : OptDecl) (vals : List String) (s : VState) (hm : od ∈ optDecls c)
    (hv : optionValues od.name.text = some vals) (hne : vals ≠ []) (hbad : optValueOf od ∉ vals)
    (hr : Visit.run c = .ok s) :
    (od.name.line, "Option " ++ od.name.text ++ " is not allowed to be " ++ optValueOf od ++ ", Expected one of:" ++
      ",".intercalate vals) ∈ s.diags := by
  obtain ⟨l1, l2, hc⟩ := List.append_of_mem hm
  refine diag_of_phase2 ?_ hr
  intro s1
  rw [optLoop_eq]
  unfold optDecls at hc
  rw [hc]
  refine forM_offence1 optDeclStep_grows od l1 l2 _ (fun _ => True) s1 (wlp_true _ _)
    (fun s _ => optDecl_badValue od vals s hv ?_ ?_)
  · cases vals with
    | nil => exact absurd rfl hne
    | cons _ _ => rfl
  · simpa using hbad

/-- **B, duplicate option.** If a documented option is declared and, later (in the same or in a later `options` block),
declared again, the run reports `Option <name> is already defined` at the line of the later declaration. -/
theorem dup_option_run (c : Cst) (o1 o2 : OptDecl) (s : VState)
    (hb : Before (optDecls c) o1 o2) (hn : o1.name.text = o2.name.text) (hk : o2.name.text ∈ optionNames)
    (hr : Visit.run c = .ok s) :
    (o2.name.line, "Option " ++ o2.name.text ++ " is already defined") ∈ s.diags := by
  obtain ⟨l1, l2, l3, hc⟩ := hb
  have hv : ∃ vals, optionValues o2.name.text = some vals := by
    cases h : optionValues o2.name.text with
    | some v => exact ⟨v, rfl⟩
    | none =>
      exfalso
      revert h
      simp only [optionNames, List.mem_cons, List.not_mem_nil, or_false] at hk
      rcases hk with hk | hk | hk | hk | hk | hk | hk | hk <;> rw [hk] <;> decide
  obtain ⟨vals, hv⟩ := hv
  refine diag_of_phase2 ?_ hr
  intro s1
  rw [optLoop_eq]
  unfold optDecls at hc
  rw [hc]
  refine forM_offence2 optDeclStep_grows (fun s => (s.options.lookup o2.name.text).isSome = true)
    (fun _ _ hg h => lookup_grow hg h) _ _ l1 l2 l3 _ (fun _ => True) (fun _ => True) _ (wlp_true _ _) ?_ (wlp_true _ _) ?_
  · intro s _
    have := optDecl_registers o1 vals s (by rw [hn]; exact hv)
    rw [hn] at this; exact this
  · intro s h _
    exact optDecl_dup o2 vals s hv h

/-! ## C. Field-level offences, whole run

`fieldName fd` is the name the field gets (for `Type name` / `Type` object fields: the name, else the type);
`isLenSyn f` says that `f` ends up as a length field: a declaration `[type] name @lengthOf(target)`, or a prefix
`@lengthOf(..)` attribute not followed by a prefix `@calculatedFrom(..)`. -/

/-- **C, duplicate field.** If a packet `p` of the file declares a field `f1` and, later, a field `f2` with the same name,
neither of them a length field, the run reports `Duplicate field definition for <field> in packet <p>` at the first line
of `f2` (its first attribute if it has one). -/
theorem dup_field_run (c : Cst) (p : PacketDef) (f1 f2 : FieldWA) (s : VState) (hp : TopDef.packet p ∈ c.defs)
    (hb : Before p.fields f1 f2) (hn : fieldName f1.fd = fieldName f2.fd)
    (h1 : isLenSyn f1 = false) (h2 : isLenSyn f2 = false) (hr : Visit.run c = .ok s) :
    (f2.start.line, "Duplicate field definition for " ++ fieldName f2.fd ++ " in packet " ++ p.name.text) ∈ s.diags := by
  obtain ⟨l1, l2, l3, hc⟩ := hb
  refine diag_of_packet p hp ?_ hr
  intro s0 hi
  rw [hc]
  refine foldlM_offence2 Inv (fun b x s h => pktStep1_inv _ _ b x s h) (fun acc => hasField acc (fieldName f2.fd))
    (fun b x s _ hf => pktStep1_hasField _ _ _ b x s hf) f1 f2 l1 l2 l3 _ _ s0 hi ?_ ?_
  · intro b s h
    rw [← hn]; exact pktStep1_registers _ _ b f1 s h h1
  · intro b s h hf
    exact pktStep1_dup _ _ b f2 s h h2 hf

/-- **C, length field outside the root packet.** A length field `f` of a packet that is not declared `root` is reported
with `LengthOfField can only be declared in the root packet` at the first line of `f`. -/
theorem len_nonroot_run (c : Cst) (p : PacketDef) (f : FieldWA) (s : VState) (hp : TopDef.packet p ∈ c.defs)
    (hroot : p.root = none) (hf : f ∈ p.fields) (hl : isLenSyn f = true) (hr : Visit.run c = .ok s) :
    (f.start.line, "LengthOfField can only be declared in the root packet") ∈ s.diags := by
  obtain ⟨l1, l2, hc⟩ := List.append_of_mem hf
  refine diag_of_packet p hp ?_ hr
  intro s0 hi
  rw [hc, hroot]
  exact foldlM_offence1 Inv (fun b x s h => pktStep1_inv _ _ b x s h) f l1 l2 _ (fun _ => True) _ s0 hi (wlp_true _ _)
    (fun b s h _ => pktStep1_lenNonRoot _ b f s h hl)

/-! ### Non-vacuity of A and B

Small concrete syntax trees (built by hand, the way the parser builds them) on which the hypotheses hold; the theorem is
applied, and the kernel evaluates the run to show the diagnostics list that really comes out.  The same programs as text,
through lexer and parser, follow. -/

private def tk (k : TK) (s : String) (l : Nat) : Tok := { kind := k, text := s, line := l, col := 0 }

/-- `u8 <name>,` -/
private def fU8 (name : String) (l : Nat) : FieldWA :=
  { attrs := [], fd := .metaF none { ty := .basic (tk .uint8 "u8" l), name := tk .ident name l, doc := none, comma := tk .comma "," l } }

/-- `[root] packet <name> {` at line `l`, the fields, `}` -/
private def pkD (root : Bool) (name : String) (l : Nat) (fields : List FieldWA) : PacketDef :=
  { root := if root then some (tk .root "root" l) else none, kw := tk .packet "packet" l, name := tk .ident name l,
    lb := tk .lbrace "{" l, fields := fields, rb := tk .rbrace "}" (l + fields.length + 1) }

private def diagsOf (c : Cst) : List (Nat × String) :=
  match Visit.run c with
  | .ok s => s.diags
  | .error _ => []

private def diagsOfText (t : String) : Option (List (Nat × String)) := (parseFull t).map diagsOf

/-- `packet A { u8 x, }  root packet A { u8 y, }` -/
private def exDupPk : Cst := { defs := [.packet (pkD false "A" 1 [fU8 "x" 2]), .packet (pkD true "A" 4 [fU8 "y" 5])] }

example (s : VState) (h : Visit.run exDupPk = .ok s) :
    ((pkD true "A" 4 [fU8 "y" 5]).start.line, "Duplicate packet definition for " ++ (pkD true "A" 4 [fU8 "y" 5]).name.text) ∈ s.diags :=
  dup_packet_run exDupPk _ _ s ⟨[], [], [], rfl⟩ rfl h

example : diagsOf exDupPk = [(4, "Duplicate packet definition for A")] := by decide +kernel
example : diagsOfText "packet A {\n u8 x,\n}\nroot packet A {\n u8 y,\n}\n" = some [(4, "Duplicate packet definition for A")] := by
  decide +kernel

/-- `root packet A { u8 x, }  root packet B { u8 y, }` -/
private def exTwoRoots : Cst := { defs := [.packet (pkD true "A" 1 [fU8 "x" 2]), .packet (pkD true "B" 4 [fU8 "y" 5])] }

example (s : VState) (h : Visit.run exTwoRoots = .ok s) :
    ((pkD true "B" 4 [fU8 "y" 5]).start.line, "Multiple root packets are not allowed") ∈ s.diags :=
  second_root_run exTwoRoots _ _ [] [] [] s rfl rfl rfl (by decide) (by decide) h

example : diagsOf exTwoRoots = [(4, "Multiple root packets are not allowed")] := by decide +kernel
example : diagsOfText "root packet A {\n u8 x,\n}\nroot packet B {\n u8 y,\n}\n" = some [(4, "Multiple root packets are not allowed")] := by
  decide +kernel

private def mdU (ty : TK) (tyText name : String) (l : Nat) : MetaDecl :=
  { ty := .basic (tk ty tyText l), name := tk .ident name l, doc := none, comma := tk .comma "," l }

/-- `MetaData M { u8 x, u16 x, }` -/
private def exDupMeta : Cst :=
  { defs := [.metaD { kw := tk .metadata "MetaData" 1, name := tk .ident "M" 1, lb := tk .lbrace "{" 1,
                      entries := [.decl (mdU .uint8 "u8" "x" 2), .decl (mdU .uint16 "u16" "x" 3)], rb := tk .rbrace "}" 4 }] }

example (s : VState) (h : Visit.run exDupMeta = .ok s) :
    ((mdU .uint16 "u16" "x" 3).ty.start.line, "Duplicate metadata definition for " ++ (mdU .uint16 "u16" "x" 3).name.text) ∈ s.diags :=
  dup_meta_run exDupMeta _ _ s ⟨[], [], [], rfl⟩ rfl h

example : diagsOf exDupMeta = [(3, "Duplicate metadata definition for x")] := by decide +kernel
example : diagsOfText "MetaData M {\n u8 x,\n u16 x,\n}\n" = some [(3, "Duplicate metadata definition for x")] := by decide +kernel

private def od (name : String) (v : Tok) (l : Nat) : OptDecl :=
  { name := tk .ident name l, eq := tk .eq "=" l, value := .tok v, semi := some (tk .semi ";" l) }

/-- `options { Foo = 1; LittleEndian = 1; GoPackage = "a"; GoPackage = "b"; }` -/
private def exOpts : Cst :=
  { defs := [.opt { kw := tk .kwOptions "options" 1, lb := tk .lbrace "{" 1,
                    decls := [od "Foo" (tk .digits "1" 2) 2, od "LittleEndian" (tk .digits "1" 3) 3,
                              od "GoPackage" (tk .string "\"a\"" 4) 4, od "GoPackage" (tk .string "\"b\"" 5) 5],
                    rb := tk .rbrace "}" 6 }] }

example (s : VState) (h : Visit.run exOpts = .ok s) :
    (2, "Option " ++ "Foo" ++ " is not allowed in this context, Expected one of:" ++ ",".intercalate optionNames) ∈ s.diags :=
  unknown_option_run exOpts (od "Foo" (tk .digits "1" 2) 2) s (by decide) (by decide) h

example (s : VState) (h : Visit.run exOpts = .ok s) :
    (3, "Option " ++ "LittleEndian" ++ " is not allowed to be " ++ optValueOf (od "LittleEndian" (tk .digits "1" 3) 3) ++
        ", Expected one of:" ++ ",".intercalate ["true", "false"]) ∈ s.diags :=
  bad_option_value_run exOpts (od "LittleEndian" (tk .digits "1" 3) 3) ["true", "false"] s (by decide) rfl (by decide) (by decide) h

example (s : VState) (h : Visit.run exOpts = .ok s) : (5, "Option " ++ "GoPackage" ++ " is already defined") ∈ s.diags :=
  dup_option_run exOpts (od "GoPackage" (tk .string "\"a\"" 4) 4) (od "GoPackage" (tk .string "\"b\"" 5) 5) s
    ⟨[od "Foo" (tk .digits "1" 2) 2, od "LittleEndian" (tk .digits "1" 3) 3], [], [], rfl⟩ rfl (by decide) h

/-- the three diagnostics, in the order of the declarations (A: nothing is retracted or reordered) -/
example : diagsOf exOpts =
    [(2, "Option Foo is not allowed in this context, Expected one of:ArrayPrefixLenType,FixedStringPadChar,FixedStringPadFromLeft,GoModule,GoPackage,JavaPackage,LittleEndian,StringPrefixLenType"),
     (3, "Option LittleEndian is not allowed to be 1, Expected one of:true,false"),
     (5, "Option GoPackage is already defined")] := by decide +kernel
example : (diagsOfText "options {\n Foo = 1;\n LittleEndian = 1;\n GoPackage = \"a\";\n GoPackage = \"b\";\n}\n").map (·.map (·.1)) = some [2, 3, 5] := by
  decide +kernel

/-! ### Non-vacuity of C -/

/-- `<ty> <name>,` -/
private def fT (k : TK) (ty name : String) (l : Nat) : FieldWA :=
  { attrs := [], fd := .metaF none { ty := .basic (tk k ty l), name := tk .ident name l, doc := none, comma := tk .comma "," l } }

/-- `u16 <name> @lengthOf(<target>),` -/
private def fLen (name target : String) (l : Nat) : FieldWA :=
  { attrs := [], fd := .len { ty := some (.basic (tk .uint16 "u16" l)), name := tk .ident name l,
                              attr := { kw := tk .lengthOf "@lengthOf(" l, from_ := tk .ident target l, rp := tk .rparen ")" l },
                              doc := none, comma := tk .comma "," l } }

/-- `packet A { u8 x, u16 x, }` -/
private def exDupField : Cst := { defs := [.packet (pkD false "A" 1 [fU8 "x" 2, fT .uint16 "u16" "x" 3])] }

example (s : VState) (h : Visit.run exDupField = .ok s) :
    ((fT .uint16 "u16" "x" 3).start.line,
      "Duplicate field definition for " ++ fieldName (fT .uint16 "u16" "x" 3).fd ++ " in packet " ++ (pkD false "A" 1 [fU8 "x" 2, fT .uint16 "u16" "x" 3]).name.text) ∈ s.diags :=
  dup_field_run exDupField _ (fU8 "x" 2) _ s (List.mem_singleton.2 rfl) ⟨[], [], [], rfl⟩ rfl rfl rfl h

example : diagsOf exDupField = [(3, "Duplicate field definition for x in packet A")] := by decide +kernel
example : diagsOfText "packet A {\n u8 x,\n u16 x,\n}\n" = some [(3, "Duplicate field definition for x in packet A")] := by
  decide +kernel

/-- `packet A { u16 Len @lengthOf(Body), string Body, }` (not a root packet) -/
private def exLenNonRoot : Cst := { defs := [.packet (pkD false "A" 1 [fLen "Len" "Body" 2, fT .string "string" "Body" 3])] }

example (s : VState) (h : Visit.run exLenNonRoot = .ok s) :
    ((fLen "Len" "Body" 2).start.line, "LengthOfField can only be declared in the root packet") ∈ s.diags :=
  len_nonroot_run exLenNonRoot _ (fLen "Len" "Body" 2) s (List.mem_singleton.2 rfl) rfl (List.mem_cons_self ..) rfl h

example : diagsOf exLenNonRoot = [(2, "LengthOfField can only be declared in the root packet")] := by decide +kernel
example : diagsOfText "packet A {\n u16 Len @lengthOf(Body),\n string Body,\n}\n" =
    some [(2, "LengthOfField can only be declared in the root packet")] := by decide +kernel

/-! ## D. Well-formed files are accepted without diagnostics (flat fragment), and the converse for the proved classes -/

/-- **D (partial: the flat fragment).**  A file of the flat fragment that is well formed (`WFFlat`, in
`Proofs/VisitDiag.lean`: MetaData declarations with pairwise different names and `char[n]` lengths in range; documented
options with allowed values, each set once; packets with pairwise different names, at most one of them `root`; per packet
pairwise different field names, every MetaData type used is declared, a checksum field has a type or is named after a
MetaData entry, padding attributes only on `char[n]` fields) is visited without a crash and **without any diagnostic**.

The fragment EXCLUDES: `RefMetaData` entries, length fields (`@lengthOf`, declaration or prefix attribute), prefix
`@calculatedFrom` attributes, fields whose type is a packet, inline objects and match fields.  The full statement, not
proved here, is `WF c → ∃ s, Visit.run c = .ok s ∧ s.diags = []` with `WF` adding: a `RefMetaData` entry refers to an
earlier entry; length fields only in the root packet, at most one, its target a field declared AFTER it; padding only on
a field whose attribute is `char[n]` at that point; every packet type of an object field / match target is a declared
packet; the key of a match field is a field of the same packet (of the same inline object); no duplicate match keys; no
length field inside an inline object; and the packet references (object fields, match targets) are not cyclic. -/
theorem wf_accepted_partial (c : Cst) (h : WFFlat c) : ∃ s, Visit.run c = .ok s ∧ s.diags = [] := by
  obtain ⟨s, hs⟩ := Visit.run_ok c
  exact ⟨s, hs, run_of_wlp (Q := fun s => s.diags = []) (visitCst_flat c h) hs⟩

/-- **D, the other direction for the classes of B and C.**  A run without diagnostics means that none of the offences
proved above is in the file: no packet, MetaData declaration, option or (non-length) field repeats an earlier name, every
option is a documented one with an allowed value, and no packet other than a root packet has a length field. -/
theorem clean_run_sound (c : Cst) (s : VState) (hr : Visit.run c = .ok s) (hd : s.diags = []) :
    (∀ p q, Before c.defs (.packet p) (.packet q) → p.name.text ≠ q.name.text) ∧
    (∀ d1 d2, Before (metaEntries c) (.decl d1) (.decl d2) → d1.name.text ≠ d2.name.text) ∧
    (∀ od, od ∈ optDecls c → od.name.text ∈ optionNames) ∧
    (∀ od vals, od ∈ optDecls c → optionValues od.name.text = some vals → vals ≠ [] → optValueOf od ∈ vals) ∧
    (∀ o1 o2, Before (optDecls c) o1 o2 → o1.name.text ≠ o2.name.text) ∧
    (∀ p f1 f2, TopDef.packet p ∈ c.defs → Before p.fields f1 f2 → isLenSyn f1 = false → isLenSyn f2 = false →
      fieldName f1.fd ≠ fieldName f2.fd) ∧
    (∀ p f, TopDef.packet p ∈ c.defs → p.root = none → f ∈ p.fields → isLenSyn f = false) := by
  have no : ∀ d : Nat × String, d ∈ s.diags → False := by intro d h; rw [hd] at h; cases h
  have hopt : ∀ od, od ∈ optDecls c → od.name.text ∈ optionNames := by
    intro od hm
    refine Classical.byContradiction fun hu => no _ (unknown_option_run c od s hm hu hr)
  refine ⟨?_, ?_, hopt, ?_, ?_, ?_, ?_⟩
  · intro p q hb hn; exact no _ (dup_packet_run c p q s hb hn hr)
  · intro d1 d2 hb hn; exact no _ (dup_meta_run c d1 d2 s hb hn hr)
  · intro od vals hm hv hne
    refine Classical.byContradiction fun hbad => no _ (bad_option_value_run c od vals s hm hv hne hbad hr)
  · intro o1 o2 hb hn
    have hm : o2 ∈ optDecls c := by
      obtain ⟨l1, l2, l3, e⟩ := hb
      rw [e]; simp
    exact no _ (dup_option_run c o1 o2 s hb hn (hopt o2 hm) hr)
  · intro p f1 f2 hp hb h1 h2 hn; exact no _ (dup_field_run c p f1 f2 s hp hb hn h1 h2 hr)
  · intro p f hp hroot hf
    cases hl : isLenSyn f with
    | false => rfl
    | true => exact (no _ (len_nonroot_run c p f s hp hroot hf hl hr)).elim

/-! ### Non-vacuity of D -/

/-- `MetaData M { u16 MsgType, char[4] Code, }  options { LittleEndian = true; }
root packet P { MsgType, @leftPad('0') char[6] Seq, string Name, u32 Crc @calculatedFrom("CRC32"), }  packet Q { u8 x, }` -/
private def exFlat : Cst :=
  { defs := [
      .metaD { kw := tk .metadata "MetaData" 1, name := tk .ident "M" 1, lb := tk .lbrace "{" 1,
               entries := [.decl (mdU .uint16 "u16" "MsgType" 2),
                           .decl { ty := .fixed (tk .charLb "char[" 3) (tk .digits "4" 3) (tk .rbrack "]" 3), name := tk .ident "Code" 3,
                                   doc := none, comma := tk .comma "," 3 }],
               rb := tk .rbrace "}" 4 },
      .opt { kw := tk .kwOptions "options" 5, lb := tk .lbrace "{" 5, decls := [od "LittleEndian" (tk .ident "true" 6) 6],
             rb := tk .rbrace "}" 7 },
      .packet (pkD true "P" 8 [
        { attrs := [], fd := .obj none (tk .ident "MsgType" 9) none none (tk .comma "," 9) },
        { attrs := [.pad (tk .padAttr "@leftPad" 10) (tk .lparen "(" 10) (some (tk .padChar "'0'" 10)) (tk .rparen ")" 10)],
          fd := .metaF none { ty := .fixed (tk .charLb "char[" 10) (tk .digits "6" 10) (tk .rbrack "]" 10), name := tk .ident "Seq" 10,
                              doc := none, comma := tk .comma "," 10 } },
        fT .string "string" "Name" 11,
        { attrs := [], fd := .cks { ty := some (.basic (tk .uint32 "u32" 12)), name := tk .ident "Crc" 12,
                                    attr := { kw := tk .calcFrom "@calculatedFrom(" 12, from_ := tk .string "\"CRC32\"" 12, rp := tk .rparen ")" 12 },
                                    doc := none, comma := tk .comma "," 12 } }]),
      .packet (pkD false "Q" 14 [fU8 "x" 15])] }

private theorem exFlat_wf : WFFlat exFlat := by
  refine ⟨?_, by decide, ?_, by decide, by decide, by decide, ?_⟩
  · intro e he
    have e1 : metaEntries exFlat = [_, _] := rfl
    rw [e1] at he
    simp only [List.mem_cons, List.not_mem_nil, or_false] at he
    rcases he with rfl | rfl
    · exact ⟨_, rfl, trivial⟩
    · exact ⟨_, rfl, (by decide : natOfDigits "4" ≤ 2 ^ 31 - 1)⟩
  · intro o ho
    have e1 : optDecls exFlat = [_] := rfl
    rw [e1] at ho
    simp only [List.mem_cons, List.not_mem_nil, or_false] at ho
    subst ho
    exact ⟨["true", "false"], rfl, .inr (by decide)⟩
  · intro p hp
    have e1 : exFlat.defs = [_, _, _, _] := rfl
    rw [e1] at hp
    simp only [List.mem_cons, List.not_mem_nil, or_false, reduceCtorEq, false_or, TopDef.packet.injEq] at hp
    rcases hp with rfl | rfl
    · refine ⟨?_, by decide⟩
      intro f hf
      change f ∈ [_, _, _, _] at hf
      simp only [List.mem_cons, List.not_mem_nil, or_false] at hf
      rcases hf with rfl | rfl | rfl | rfl
      · exact ⟨(by decide : "MsgType" ∈ metaNames exFlat), fun a ha => by cases ha⟩
      · refine ⟨(by decide : natOfDigits "6" ≤ 2 ^ 31 - 1), fun a ha => ?_⟩
        have : a = _ := List.mem_singleton.1 ha
        subst this
        exact trivial
      · exact ⟨trivial, fun a ha => by cases ha⟩
      · exact ⟨.inl rfl, fun a ha => by cases ha⟩
    · refine ⟨?_, by decide⟩
      intro f hf
      have : f = _ := List.mem_singleton.1 hf
      subst this
      exact ⟨trivial, fun a ha => by cases ha⟩

example : ∃ s, Visit.run exFlat = .ok s ∧ s.diags = [] := wf_accepted_partial exFlat exFlat_wf

/-- the run, evaluated by the kernel: no diagnostic, two packets, the root is `P` -/
example : (match Visit.run exFlat with
    | .ok s => s.diags.isEmpty && s.packets.length == 2 && s.root == some "P" && s.metas.length == 2 && s.options.length == 1
    | .error _ => false) = true := by decide +kernel

example : diagsOfText "MetaData M {\n u16 MsgType,\n char[4] Code,\n}\noptions {\n LittleEndian = true;\n}\nroot packet P {\n MsgType,\n @leftPad('0') char[6] Seq,\n string Name,\n u32 Crc @calculatedFrom(\"CRC32\"),\n}\npacket Q {\n u8 x,\n}\n" = some [] := by
  decide +kernel

/-! ## E. Unknown packet types (diagnosed by `ResolveDependencies`), duplicate match keys, a second length field

Helper lemmas in `Proofs/VisitDiag2.lean`.  `attrKeeps a` says that the prefix attribute `a` leaves the attribute object of
the field alone (`@tag(n)` and the padding attributes do; `@calculatedFrom(..)` / `@lengthOf(..)` replace it, and the field
is then no longer an object / match field). -/

/-- **E, unknown packet type of an object field.**  Let `p` be the first packet definition of its name, `f` a field of `p`
that does not repeat the name of an earlier field of `p`, of the form `[repeat] T [name]` with only `@tag` / padding prefix
attributes, where `T` is neither the name of a MetaData entry nor the name of a packet defined anywhere in the file.  Then the
run reports `Unknown packet type T for field <name>` at the first line of the field definition (`repeat` if present, else
`T`).  The diagnostic is issued by `ResolveDependencies`, after every packet has been registered, from the attribute slot
that the second loop of `VisitPacketDefinition` and `resolveFields` overwrite in place. -/
theorem unknown_field_type_run (c : Cst) (p : PacketDef) (f : FieldWA) (L1 L2 : List TopDef) (l1 l2 : List FieldWA)
    (rep : Option Tok) (ft : Tok) (fn doc : Option Tok) (comma : Tok) (s : VState)
    (hcd : c.defs = L1 ++ .packet p :: L2) (hpn : p.name.text ∉ packetNames L1)
    (hc : p.fields = l1 ++ f :: l2) (hnew : fieldName f.fd ∉ l1.map (fun f => fieldName f.fd))
    (hfd : f.fd = .obj rep ft fn doc comma) (hk : ∀ a, a ∈ f.attrs → attrKeeps a = true)
    (hnm : ft.text ∉ metaNames c) (hnp : ft.text ∉ packetNames c.defs) (hr : Visit.run c = .ok s) :
    ((rep.getD ft).line, "Unknown packet type " ++ ft.text ++ " for field " ++ fieldName f.fd) ∈ s.diags := by
  refine run_tracked L1 L2 p f l1 l2 hcd hc (.object false ft.text .none) (rep.getD ft).line (by rw [hfd]; rfl) hk hnew hpn
    ?_ ?_ hr
  · intro s2 hmf
    rw [hfd]
    exact findMeta_none_of_metaFrom hmf hnm
  · intro fuel g s1 hpk ht
    exact resolveField_unknownObj fuel g s1 _ ft.text _ ht
      (not_hasPk_of_pkFrom hpk (fun r hr e => hnp (e ▸ mem_packetNames hr)))

/-- **E, unknown packet type of a match target.**  Let `p` be the first packet definition of its name and `f` a match field
`match key as name { .. }` of `p` (only `@tag` / padding prefix attributes) that does not repeat the name of an earlier field.
For every key/target pair `pr` of the field (`pairsOfMatch d`: one per key, see `mem_pairsOfMatch_single` /
`mem_pairsOfMatch_list`) whose target is not the name of a packet defined anywhere in the file the run reports
`Unknown packet type <target> for match key <key> of field <name>` at the line of that key. -/
theorem unknown_match_target_run (c : Cst) (p : PacketDef) (f : FieldWA) (L1 L2 : List TopDef) (l1 l2 : List FieldWA)
    (d : MatchDecl) (comma : Tok) (pr : MPair) (s : VState)
    (hcd : c.defs = L1 ++ .packet p :: L2) (hpn : p.name.text ∉ packetNames L1)
    (hc : p.fields = l1 ++ f :: l2) (hnew : fieldName f.fd ∉ l1.map (fun f => fieldName f.fd))
    (hfd : f.fd = .match_ d comma) (hk : ∀ a, a ∈ f.attrs → attrKeeps a = true)
    (hpr : pr ∈ pairsOfMatch d) (hnp : pr.value ∉ packetNames c.defs) (hr : Visit.run c = .ok s) :
    (pr.line, "Unknown packet type " ++ pr.value ++ " for match key " ++ pr.key ++ " of field " ++ d.name.text) ∈ s.diags := by
  have hname : fieldName f.fd = d.name.text := by rw [hfd]; rfl
  rw [← hname]
  refine run_tracked L1 L2 p f l1 l2 hcd hc (.match_ (some d.key.text) false (pairsOfMatch d)) 0 (by rw [hfd]; rfl) hk hnew hpn
    ?_ ?_ hr
  · intro s2 _
    rw [hfd]
    trivial
  · intro fuel g s1 hpk ht
    exact resolveField_unknownTarget fuel g s1 _ 0 _ _ pr hpr ht
      (not_hasPk_of_pkFrom hpk (fun r hr e => hnp (e ▸ mem_packetNames hr)))

/-- the model pair of a match pair with a single key: the key without leading zeros, the target, the line of the key -/
theorem mem_pairsOfMatch_single (d : MatchDecl) (p : MatchPair) (t : Tok) (hp : p ∈ d.pairs) (hk : p.key = .single t) :
    ({ key := keyText t, value := p.target.text, line := t.line } : MPair) ∈ pairsOfMatch d := by
  unfold pairsOfMatch
  refine List.mem_flatten.2 ⟨_, List.mem_map.2 ⟨p, hp, rfl⟩, ?_⟩
  rw [hk]
  exact List.mem_singleton.2 rfl

/-- the model pairs of a match pair with a key list `[k1, k2, ..]`: one per item that is a number or a string -/
theorem mem_pairsOfMatch_list (d : MatchDecl) (p : MatchPair) (lb first : Tok) (rest : List (Tok × Tok)) (rb t : Tok)
    (hp : p ∈ d.pairs) (hk : p.key = .list lb first rest rb) (ht : t ∈ first :: rest.map (·.2))
    (hkind : t.kind = .digits ∨ t.kind = .string) :
    ({ key := keyText t, value := p.target.text, line := t.line } : MPair) ∈ pairsOfMatch d := by
  unfold pairsOfMatch
  refine List.mem_flatten.2 ⟨_, List.mem_map.2 ⟨p, hp, rfl⟩, ?_⟩
  rw [hk]
  refine List.mem_map.2 ⟨t, ?_, rfl⟩
  rcases hkind with h | h
  · exact List.mem_append_left _ (List.mem_filter.2 ⟨ht, by simp [h]⟩)
  · exact List.mem_append_right _ (List.mem_filter.2 ⟨ht, by simp [h]⟩)

/-- **E, duplicate match key.**  If a match field of a packet of the file has two key/target pairs `a` before `b` (in the
order of `pairsOfMatch d`: pair by pair, within a key list the numbers before the strings) with the same key - integer keys
are compared without leading zeros - the run reports `Duplicate match key: <key>` at the line of the later key. -/
theorem dup_match_key_run (c : Cst) (p : PacketDef) (f : FieldWA) (d : MatchDecl) (comma : Tok) (a b : MPair) (s : VState)
    (hp : TopDef.packet p ∈ c.defs) (hf : f ∈ p.fields) (hfd : f.fd = .match_ d comma)
    (hb : Before (pairsOfMatch d) a b) (hk : a.key = b.key) (hr : Visit.run c = .ok s) :
    (b.line, "Duplicate match key: " ++ b.key) ∈ s.diags :=
  diag_of_field p f hp hf (fun s0 _ => by rw [hfd, visitFieldDef]; exact visitMatch_dupKey d a b hb hk s0) hr

/-- **E, a second length field.**  If the root packet declares a length field `f1` and, later, a length field `f2`, the run
reports `Duplicate LengthOfField declaration` at the first line of `f2`. -/
theorem dup_len_run (c : Cst) (p : PacketDef) (f1 f2 : FieldWA) (s : VState) (hp : TopDef.packet p ∈ c.defs)
    (hroot : p.root.isSome = true) (hb : Before p.fields f1 f2) (h1 : isLenSyn f1 = true) (h2 : isLenSyn f2 = true)
    (hr : Visit.run c = .ok s) : (f2.start.line, "Duplicate LengthOfField declaration") ∈ s.diags := by
  obtain ⟨l1, l2, l3, hc⟩ := hb
  refine diag_of_packet p hp ?_ hr
  intro s0 hi
  rw [hc, hroot]
  exact foldlM_offence2 Inv (fun b x s h => pktStep1_inv _ _ b x s h) hasLenF
    (fun b x s _ hf => pktStep1_lenKeep _ _ b x s hf) f1 f2 l1 l2 l3 _ _ s0 hi
    (fun b s h => pktStep1_lenSome _ b f1 s h h1) (fun b s h hf => pktStep1_dupLen _ b f2 s h h2 hf)

/-! ### Non-vacuity of E -/

/-- `<T> <name>,` -/
private def fObj (ty name : String) (l : Nat) : FieldWA :=
  { attrs := [], fd := .obj none (tk .ident ty l) (some (tk .ident name l)) none (tk .comma "," l) }

/-- `packet A { Foo x, }` -/
private def exUnkType : Cst := { defs := [.packet (pkD false "A" 1 [fObj "Foo" "x" 2])] }

example (s : VState) (h : Visit.run exUnkType = .ok s) :
    (2, "Unknown packet type " ++ "Foo" ++ " for field " ++ fieldName (fObj "Foo" "x" 2).fd) ∈ s.diags :=
  unknown_field_type_run exUnkType (pkD false "A" 1 [fObj "Foo" "x" 2]) (fObj "Foo" "x" 2) [] [] [] [] none _ _ none _ s
    rfl (by decide) rfl (by decide) rfl (fun a ha => by cases ha) (by decide) (by decide) h

example : diagsOfText "packet A {\n Foo x,\n}\n" = some [(2, "Unknown packet type Foo for field x")] := by decide +kernel

private def mPair (key target : String) (l : Nat) : MatchPair :=
  { key := .single (tk .digits key l), colon := tk .colon ":" l, target := tk .ident target l, comma := some (tk .comma "," l) }

private def mDecl (key name : String) (l : Nat) (pairs : List MatchPair) : MatchDecl :=
  { kw := tk .match_ "match" l, key := tk .ident key l, as_ := tk .kwAs "as" l, name := tk .ident name l, lb := tk .lbrace "{" l,
    pairs := pairs, rb := tk .rbrace "}" (l + pairs.length + 1) }

/-- `match <key> as <name> { .. },` -/
private def fMatch (key name : String) (l : Nat) (pairs : List MatchPair) : FieldWA :=
  { attrs := [], fd := .match_ (mDecl key name l pairs) (tk .comma "," (l + pairs.length + 1)) }

/-- `packet A { u8 kind, match kind as Body { 1 : B, 2 : C, }, }  packet B { u8 x, }` -/
private def exUnkTarget : Cst :=
  { defs := [.packet (pkD false "A" 1 [fU8 "kind" 2, fMatch "kind" "Body" 3 [mPair "1" "B" 4, mPair "2" "C" 5]]),
             .packet (pkD false "B" 8 [fU8 "x" 9])] }

example (s : VState) (h : Visit.run exUnkTarget = .ok s) :
    (5, "Unknown packet type " ++ "C" ++ " for match key " ++ "2" ++ " of field " ++ "Body") ∈ s.diags :=
  unknown_match_target_run exUnkTarget _ (fMatch "kind" "Body" 3 [mPair "1" "B" 4, mPair "2" "C" 5]) [] _ [fU8 "kind" 2] []
    _ _ { key := "2", value := "C", line := 5 } s rfl (by decide) rfl (by decide) rfl (fun a ha => by cases ha)
    (mem_pairsOfMatch_single _ (mPair "2" "C" 5) _ (by simp [mDecl]) rfl) (by decide) h

example : diagsOfText "packet A {\n u8 kind,\n match kind as Body {\n  1 : B,\n  2 : C,\n },\n}\npacket B {\n u8 x,\n}\n" =
    some [(5, "Unknown packet type C for match key 2 of field Body")] := by decide +kernel

/-- `packet A { u8 kind, match kind as Body { 1 : B, 01 : B, }, }  packet B { u8 x, }` -/
private def exDupKey : Cst :=
  { defs := [.packet (pkD false "A" 1 [fU8 "kind" 2, fMatch "kind" "Body" 3 [mPair "1" "B" 4, mPair "01" "B" 5]]),
             .packet (pkD false "B" 8 [fU8 "x" 9])] }

example (s : VState) (h : Visit.run exDupKey = .ok s) : (5, "Duplicate match key: " ++ "1") ∈ s.diags :=
  dup_match_key_run exDupKey _ (fMatch "kind" "Body" 3 [mPair "1" "B" 4, mPair "01" "B" 5]) _ _
    { key := "1", value := "B", line := 4 } { key := "1", value := "B", line := 5 } s
    (List.mem_cons_self ..) (by simp [pkD]) rfl ⟨[], [], [], by decide⟩ rfl h

example : diagsOfText "packet A {\n u8 kind,\n match kind as Body {\n  1 : B,\n  01 : B,\n },\n}\npacket B {\n u8 x,\n}\n" =
    some [(5, "Duplicate match key: 1")] := by decide +kernel

/-- `root packet A { u16 L1 @lengthOf(Body), u16 L2 @lengthOf(Body), string Body, }` -/
private def exDupLen : Cst :=
  { defs := [.packet (pkD true "A" 1 [fLen "L1" "Body" 2, fLen "L2" "Body" 3, fT .string "string" "Body" 4])] }

example (s : VState) (h : Visit.run exDupLen = .ok s) :
    ((fLen "L2" "Body" 3).start.line, "Duplicate LengthOfField declaration") ∈ s.diags :=
  dup_len_run exDupLen _ (fLen "L1" "Body" 2) (fLen "L2" "Body" 3) s (List.mem_singleton.2 rfl) rfl
    ⟨[], [], [fT .string "string" "Body" 4], rfl⟩ rfl rfl h

example : diagsOfText "root packet A {\n u16 L1 @lengthOf(Body),\n u16 L2 @lengthOf(Body),\n string Body,\n}\n" =
    some [(3, "Duplicate LengthOfField declaration")] := by decide +kernel

/-- **E, duplicate match key, also inside inline objects.**  As `dup_match_key_run`, for a match field that is the field `f`
itself or is nested (at any depth) in the inline object `f` (`SubFd`, `Proofs/VisitDiag2.lean`). -/
theorem dup_match_key_nested_run (c : Cst) (p : PacketDef) (f : FieldWA) (d : MatchDecl) (comma : Tok) (a b : MPair)
    (s : VState) (hp : TopDef.packet p ∈ c.defs) (hf : f ∈ p.fields) (hsub : SubFd (.match_ d comma) f.fd)
    (hb : Before (pairsOfMatch d) a b) (hk : a.key = b.key) (hr : Visit.run c = .ok s) :
    (b.line, "Duplicate match key: " ++ b.key) ∈ s.diags :=
  diag_of_field p f hp hf (fun s0 _ => visitFieldDef_sub_diag _ hsub
    (fun s => by rw [visitFieldDef]; exact visitMatch_dupKey d a b hb hk s) s0) hr

/-- `packet A { Inner { u8 kind, match kind as Body { 1 : B, 1 : B, }, }, }  packet B { u8 x, }` -/
private def exDupKeyNested : Cst :=
  { defs := [.packet (pkD false "A" 1 [
      { attrs := [], fd := .iner none (tk .ident "Inner" 2) (tk .lbrace "{" 2)
          [(fU8 "kind" 3).fd, (fMatch "kind" "Body" 4 [mPair "1" "B" 5, mPair "1" "B" 6]).fd] (tk .rbrace "}" 8) (tk .comma "," 8) }]),
             .packet (pkD false "B" 10 [fU8 "x" 11])] }

example (s : VState) (h : Visit.run exDupKeyNested = .ok s) : (6, "Duplicate match key: " ++ "1") ∈ s.diags :=
  dup_match_key_nested_run exDupKeyNested _ _ (mDecl "kind" "Body" 4 [mPair "1" "B" 5, mPair "1" "B" 6]) (tk .comma "," 7)
    { key := "1", value := "B", line := 5 } { key := "1", value := "B", line := 6 } s
    (List.mem_cons_self ..) (List.mem_singleton.2 rfl)
    (SubFd.iner _ _ _ _ _ (List.mem_cons_of_mem _ (List.mem_singleton.2 rfl)) (SubFd.refl _)) ⟨[], [], [], by decide⟩ rfl h

example : diagsOfText "packet A {\n Inner {\n  u8 kind,\n  match kind as Body {\n   1 : B,\n   1 : B,\n  },\n },\n}\npacket B {\n u8 x,\n}\n" =
    some [(6, "Duplicate match key: 1")] := by decide +kernel

/-- the declaration inside `fLen` -/
private def dLen (name target : String) (l : Nat) : LenDecl :=
  { ty := some (.basic (tk .uint16 "u16" l)), name := tk .ident name l,
    attr := { kw := tk .lengthOf "@lengthOf(" l, from_ := tk .ident target l, rp := tk .rparen ")" l },
    doc := none, comma := tk .comma "," l }

/-- **E, length field inside an inline object.**  A length field declaration `[type] N @lengthOf(T)` among the sub-fields of
an inline object - the inline object being a field `f` of a packet of the file (root or not) or nested in `f` at any depth -
is reported with `LengthOfField can only be declared in the root packet` at the first line of the declaration. -/
theorem len_in_inline_run (c : Cst) (p : PacketDef) (f : FieldWA) (rep : Option Tok) (name lb rb comma : Tok)
    (a b : List FieldDef) (d : LenDecl) (s : VState) (hp : TopDef.packet p ∈ c.defs) (hf : f ∈ p.fields)
    (hsub : SubFd (.iner rep name lb (a ++ .len d :: b) rb comma) f.fd) (hr : Visit.run c = .ok s) :
    ((FieldDef.len d).start.line, "LengthOfField can only be declared in the root packet") ∈ s.diags :=
  diag_of_field p f hp hf (fun s0 _ => visitFieldDef_sub_diag _ hsub
    (fun s => visitFieldDef_lenInInline rep name lb rb comma a b d s) s0) hr

/-- `root packet A { Inner { u16 L @lengthOf(Body), string Body, }, }` -/
private def exLenInline : Cst :=
  { defs := [.packet (pkD true "A" 1 [
      { attrs := [], fd := .iner none (tk .ident "Inner" 2) (tk .lbrace "{" 2)
          [.len (dLen "L" "Body" 3), (fT .string "string" "Body" 4).fd] (tk .rbrace "}" 5) (tk .comma "," 5) }])] }

example (s : VState) (h : Visit.run exLenInline = .ok s) :
    (3, "LengthOfField can only be declared in the root packet") ∈ s.diags :=
  len_in_inline_run exLenInline _ _ none (tk .ident "Inner" 2) (tk .lbrace "{" 2) (tk .rbrace "}" 5) (tk .comma "," 5) []
    [(fT .string "string" "Body" 4).fd] (dLen "L" "Body" 3) s (List.mem_singleton.2 rfl) (List.mem_singleton.2 rfl) (SubFd.refl _) h

example : diagsOfText "root packet A {\n Inner {\n  u16 L @lengthOf(Body),\n  string Body,\n },\n}\n" =
    some [(3, "LengthOfField can only be declared in the root packet")] := by decide +kernel

/-- **E, unknown key field inside an inline object.**  A match field `match K as N { .. }` among the sub-fields of an inline
object (the inline object being a field `f` of a packet of the file, or nested in `f` at any depth) whose key `K` is not the
name of a sub-field of that inline object is reported with `Unknown key field K for match field N` at its first line. -/
theorem unknown_key_in_inline_run (c : Cst) (p : PacketDef) (f : FieldWA) (rep : Option Tok) (name lb rb comma' : Tok)
    (a b : List FieldDef) (d : MatchDecl) (comma : Tok) (s : VState) (hp : TopDef.packet p ∈ c.defs) (hf : f ∈ p.fields)
    (hsub : SubFd (.iner rep name lb (a ++ .match_ d comma :: b) rb comma') f.fd)
    (hkey : d.key.text ∉ (a ++ .match_ d comma :: b).map fieldName) (hr : Visit.run c = .ok s) :
    ((FieldDef.match_ d comma).start.line, "Unknown key field " ++ d.key.text ++ " for match field " ++ d.name.text) ∈ s.diags :=
  diag_of_field p f hp hf (fun s0 _ => visitFieldDef_sub_diag _ hsub
    (fun s => visitFieldDef_unknownKeyInline rep name lb rb comma' a b d comma hkey s) s0) hr

/-- `packet A { Inner { match kind as Body { 1 : B, }, }, }  packet B { u8 x, }` -/
private def exUnkKeyInline : Cst :=
  { defs := [.packet (pkD false "A" 1 [
      { attrs := [], fd := .iner none (tk .ident "Inner" 2) (tk .lbrace "{" 2)
          [(fMatch "kind" "Body" 3 [mPair "1" "B" 4]).fd] (tk .rbrace "}" 6) (tk .comma "," 6) }]),
             .packet (pkD false "B" 8 [fU8 "x" 9])] }

example (s : VState) (h : Visit.run exUnkKeyInline = .ok s) :
    (3, "Unknown key field " ++ "kind" ++ " for match field " ++ "Body") ∈ s.diags :=
  unknown_key_in_inline_run exUnkKeyInline _ _ none (tk .ident "Inner" 2) (tk .lbrace "{" 2) (tk .rbrace "}" 6) (tk .comma "," 6) [] []
    (mDecl "kind" "Body" 3 [mPair "1" "B" 4]) (tk .comma "," 5) s (List.mem_cons_self ..) (List.mem_singleton.2 rfl) (SubFd.refl _)
    (by decide) h

example : diagsOfText "packet A {\n Inner {\n  match kind as Body {\n   1 : B,\n  },\n },\n}\npacket B {\n u8 x,\n}\n" =
    some [(3, "Unknown key field kind for match field Body")] := by decide +kernel

/-! ### The target of the length field -/

/-- **E, unknown length target.**  Let `f` be a length field declaration `[type] N @lengthOf(T)` (only `@tag` / padding
prefix attributes) of the root packet `p`, the first length field of `p` (no field before it is a length field), not
repeating the name of an earlier field.  If `T` is not the name of any field of `p`, the run reports
`Unknown field T for @lengthOf of field N` at the first line of `f`. -/
theorem unknown_len_target_run (c : Cst) (p : PacketDef) (f : FieldWA) (d : LenDecl) (l1 l2 : List FieldWA) (s : VState)
    (hp : TopDef.packet p ∈ c.defs) (hroot : p.root.isSome = true) (hc : p.fields = l1 ++ f :: l2) (hfd : f.fd = .len d)
    (hk : ∀ a, a ∈ f.attrs → attrKeeps a = true) (hl1 : ∀ x, x ∈ l1 → isLenSyn x = false)
    (hnew : d.name.text ∉ l1.map (fun f => fieldName f.fd))
    (ht : d.attr.from_.text ∉ p.fields.map (fun f => fieldName f.fd)) (hr : Visit.run c = .ok s) :
    (f.start.line, "Unknown field " ++ d.attr.from_.text ++ " for @lengthOf of field " ++ d.name.text) ∈ s.diags := by
  refine diag_of_packetDef p hp ?_ hr
  intro s0 hi
  refine visitPacketDef_lenCheck p f d l1 l2 hroot hc hfd hk hl1 hnew _ s0 hi ?_
  intro fields lines lf i F1 X s1 hnames hline hname hslot _ _ _
  rw [← hline, ← hname]
  refine pktLenCheck_unknown fields lines _ lf i s1 _ hslot ?_
  cases hcn : (fields.map (·.name)).contains d.attr.from_.text with
  | false => rfl
  | true =>
    exfalso
    obtain ⟨g, hg, he⟩ := List.mem_map.1 (List.contains_iff_mem.1 hcn)
    exact ht (he ▸ hnames g hg)

/-- **E, length target declared before the length field.**  In the situation of `unknown_len_target_run`, if `T` is the name
of a field `t` declared BEFORE `f` (the length slot is reserved where `f` stands and patched after the measured field), the
run reports `Field T measured by @lengthOf of field N must be declared after it` at the first line of `f`. -/
theorem len_target_before_run (c : Cst) (p : PacketDef) (f t : FieldWA) (d : LenDecl) (l1 l2 : List FieldWA) (s : VState)
    (hp : TopDef.packet p ∈ c.defs) (hroot : p.root.isSome = true) (hc : p.fields = l1 ++ f :: l2) (hfd : f.fd = .len d)
    (hk : ∀ a, a ∈ f.attrs → attrKeeps a = true) (hl1 : ∀ x, x ∈ l1 → isLenSyn x = false)
    (hnew : d.name.text ∉ l1.map (fun f => fieldName f.fd))
    (htm : t ∈ l1) (htn : fieldName t.fd = d.attr.from_.text) (hr : Visit.run c = .ok s) :
    (f.start.line, "Field " ++ d.attr.from_.text ++ " measured by @lengthOf of field " ++ d.name.text ++
      " must be declared after it") ∈ s.diags := by
  refine diag_of_packetDef p hp ?_ hr
  intro s0 hi
  refine visitPacketDef_lenCheck p f d l1 l2 hroot hc hfd hk hl1 hnew _ s0 hi ?_
  intro fields lines lf i F1 X s1 _ hline hname hslot hF hlen hreg
  rw [← hline, ← hname]
  have hany : F1.any (fun g => decide (g.name = d.attr.from_.text)) = true := by rw [← htn]; exact hreg t htm
  obtain ⟨j, hj, e⟩ := findIdx?_append_of_any (fun g : MField => decide (g.name = d.attr.from_.text)) F1 X hany
  refine pktLenCheck_before fields lines _ lf i j s1 _ hslot ?_ (by rw [hF]; exact e) (by omega)
  rw [List.contains_iff_mem]
  obtain ⟨g, hg, he⟩ := List.any_eq_true.1 hany
  exact List.mem_map.2 ⟨g, by rw [hF]; exact List.mem_append_left _ hg, by simpa using he⟩

/-- `root packet A { u16 L1 @lengthOf(Nope), string Body, }` -/
private def exLenUnknown : Cst := { defs := [.packet (pkD true "A" 1 [fLen "L1" "Nope" 2, fT .string "string" "Body" 3])] }

example (s : VState) (h : Visit.run exLenUnknown = .ok s) :
    (2, "Unknown field " ++ "Nope" ++ " for @lengthOf of field " ++ "L1") ∈ s.diags :=
  unknown_len_target_run exLenUnknown (pkD true "A" 1 [fLen "L1" "Nope" 2, fT .string "string" "Body" 3]) (fLen "L1" "Nope" 2)
    (dLen "L1" "Nope" 2) [] [fT .string "string" "Body" 3] s (List.mem_singleton.2 rfl) rfl rfl
    rfl (fun a ha => by cases ha) (fun x hx => by cases hx) (by decide) (by decide) h

example : diagsOfText "root packet A {\n u16 L1 @lengthOf(Nope),\n string Body,\n}\n" =
    some [(2, "Unknown field Nope for @lengthOf of field L1")] := by decide +kernel

/-- `root packet A { string Body, u16 L1 @lengthOf(Body), }` -/
private def exLenBefore : Cst := { defs := [.packet (pkD true "A" 1 [fT .string "string" "Body" 2, fLen "L1" "Body" 3])] }

example (s : VState) (h : Visit.run exLenBefore = .ok s) :
    (3, "Field " ++ "Body" ++ " measured by @lengthOf of field " ++ "L1" ++ " must be declared after it") ∈ s.diags :=
  len_target_before_run exLenBefore (pkD true "A" 1 [fT .string "string" "Body" 2, fLen "L1" "Body" 3]) (fLen "L1" "Body" 3)
    (fT .string "string" "Body" 2) (dLen "L1" "Body" 3) [fT .string "string" "Body" 2] [] s
    (List.mem_singleton.2 rfl) rfl rfl rfl (fun a ha => by cases ha)
    (fun x hx => by cases List.mem_singleton.1 hx; rfl) (by decide) (List.mem_singleton.2 rfl) rfl h

example : diagsOfText "root packet A {\n string Body,\n u16 L1 @lengthOf(Body),\n}\n" =
    some [(3, "Field Body measured by @lengthOf of field L1 must be declared after it")] := by decide +kernel

/-! ### The key field of a match field -/

/-- **E, unknown key field.**  Let `f` be a match field `match K as N { .. }` (only `@tag` / padding prefix attributes) of a
packet `p` of the file, not repeating the name of an earlier field.  If `K` is not the name of any field of `p`, the run
reports `Unknown key field K for match field N` at the first line of `f`. -/
theorem unknown_key_field_run (c : Cst) (p : PacketDef) (f : FieldWA) (d : MatchDecl) (comma : Tok) (l1 l2 : List FieldWA)
    (s : VState) (hp : TopDef.packet p ∈ c.defs) (hc : p.fields = l1 ++ f :: l2) (hfd : f.fd = .match_ d comma)
    (hk : ∀ a, a ∈ f.attrs → attrKeeps a = true) (hnew : fieldName f.fd ∉ l1.map (fun f => fieldName f.fd))
    (hkey : d.key.text ∉ p.fields.map (fun f => fieldName f.fd)) (hr : Visit.run c = .ok s) :
    (f.start.line, "Unknown key field " ++ d.key.text ++ " for match field " ++ d.name.text) ∈ s.diags :=
  diag_of_packetDef p hp (fun s0 hi => visitPacketDef_unknownKey p f d comma l1 l2 hc hfd hk hnew hkey s0 hi) hr

/-- `packet A { match kind as Body { 1 : B, }, }  packet B { u8 x, }` -/
private def exUnkKey : Cst :=
  { defs := [.packet (pkD false "A" 1 [fMatch "kind" "Body" 2 [mPair "1" "B" 3]]), .packet (pkD false "B" 6 [fU8 "x" 7])] }

example (s : VState) (h : Visit.run exUnkKey = .ok s) :
    (2, "Unknown key field " ++ "kind" ++ " for match field " ++ "Body") ∈ s.diags :=
  unknown_key_field_run exUnkKey (pkD false "A" 1 [fMatch "kind" "Body" 2 [mPair "1" "B" 3]]) (fMatch "kind" "Body" 2 [mPair "1" "B" 3])
    (mDecl "kind" "Body" 2 [mPair "1" "B" 3]) (tk .comma "," 4) [] [] s (List.mem_cons_self ..) rfl rfl (fun a ha => by cases ha)
    (by decide) (by decide) h

example : diagsOfText "packet A {\n match kind as Body {\n  1 : B,\n },\n}\npacket B {\n u8 x,\n}\n" =
    some [(2, "Unknown key field kind for match field Body")] := by decide +kernel

/-! ### A MetaData reference to an undeclared entry -/

/-- **E, unknown MetaData type of a reference.**  A MetaData entry `T N` (`RefMetaDataDeclaration`) whose type `T` is not the
name of any EARLIER MetaData entry of the file is reported with `Unknown MetaData type T for N` at its line (and is not
registered). -/
theorem unknown_meta_ref_run (c : Cst) (r : RefMetaDecl) (l1 l2 : List MetaEntry) (s : VState)
    (hc : metaEntries c = l1 ++ .ref r :: l2) (hn : r.typ.text ∉ l1.map entryName) (hr : Visit.run c = .ok s) :
    (r.typ.line, "Unknown MetaData type " ++ r.typ.text ++ " for " ++ r.name.text) ∈ s.diags := by
  refine diag_of_phase1 ?_ hr
  rw [metaLoop_eq]
  unfold metaEntries at hc
  rw [hc]
  exact forM_offence1 metaEntryStep_grows _ l1 l2 _ (MetaFrom (l1.map entryName)) {} (metaLoop_metaFrom l1)
    (fun s1 h1 => metaRef_unknown r s1 (findMeta_none_of_metaFrom h1 hn))

/-- `MetaData M { Kind Sub, u8 Kind, }` (the reference comes before the declaration) -/
private def exUnkRef : Cst :=
  { defs := [.metaD { kw := tk .metadata "MetaData" 1, name := tk .ident "M" 1, lb := tk .lbrace "{" 1,
                      entries := [.ref { typ := tk .ident "Kind" 2, name := tk .ident "Sub" 2, doc := none, comma := tk .comma "," 2 },
                                  .decl (mdU .uint8 "u8" "Kind" 3)], rb := tk .rbrace "}" 4 }] }

example (s : VState) (h : Visit.run exUnkRef = .ok s) : (2, "Unknown MetaData type " ++ "Kind" ++ " for " ++ "Sub") ∈ s.diags :=
  unknown_meta_ref_run exUnkRef { typ := tk .ident "Kind" 2, name := tk .ident "Sub" 2, doc := none, comma := tk .comma "," 2 }
    [] [.decl (mdU .uint8 "u8" "Kind" 3)] s rfl (by decide) h

example : diagsOfText "MetaData M {\n Kind Sub,\n u8 Kind,\n}\n" = some [(2, "Unknown MetaData type Kind for Sub")] := by
  decide +kernel

/-! ### The other direction for the classes of E, and the second root -/

/-- in a file without duplicate packet names a packet definition is the first of its name -/
private theorem first_of_name {c : Cst} (hclean : ∀ p q, Before c.defs (.packet p) (.packet q) → p.name.text ≠ q.name.text)
    (A B : List TopDef) (q : PacketDef) (e : c.defs = A ++ .packet q :: B) : q.name.text ∉ packetNames A := by
  intro hmem
  obtain ⟨d, hd1, hd2⟩ := List.mem_filterMap.1 hmem
  cases d with
  | packet r =>
    obtain ⟨a, b, e1⟩ := List.append_of_mem hd1
    refine hclean r q ⟨a, b, B, by rw [e, e1]; simp⟩ ?_
    simpa using hd2
  | metaD m => simp at hd2
  | opt o => simp at hd2

/-- **D/E, the other direction, continued.**  A run without diagnostics also means: at most one packet is declared `root`;
every object field (`[repeat] T [name]`, only `@tag` / padding attributes, not repeating an earlier field name) has a type
that is a MetaData entry or a packet of the file; every target of such a match field is a packet of the file; no match field
of a packet has two equal keys; the root packet has at most one length field; the key of such a match field is a field of
its packet; the target of the (first) length field declaration of the root packet is a field of the packet that is not
declared before it; and inside inline objects (at any depth): no match field has two equal keys, no sub-field is a length
field declaration, the key of a match field is a sub-field of the same inline object; and every MetaData reference names an
earlier MetaData entry. -/
theorem clean_run_sound_ext (c : Cst) (s : VState) (hr : Visit.run c = .ok s) (hd : s.diags = []) :
    (∀ p q, Before c.defs (.packet p) (.packet q) → ¬ (p.root.isSome = true ∧ q.root.isSome = true)) ∧
    (∀ p f l1 l2 rep ft fn doc comma, TopDef.packet p ∈ c.defs → p.fields = l1 ++ f :: l2 →
      fieldName f.fd ∉ l1.map (fun f => fieldName f.fd) → f.fd = .obj rep ft fn doc comma →
      (∀ a, a ∈ f.attrs → attrKeeps a = true) → ft.text ∈ metaNames c ∨ ft.text ∈ packetNames c.defs) ∧
    (∀ p f l1 l2 d comma pr, TopDef.packet p ∈ c.defs → p.fields = l1 ++ f :: l2 →
      fieldName f.fd ∉ l1.map (fun f => fieldName f.fd) → f.fd = .match_ d comma →
      (∀ a, a ∈ f.attrs → attrKeeps a = true) → pr ∈ pairsOfMatch d → pr.value ∈ packetNames c.defs) ∧
    (∀ p f d comma a b, TopDef.packet p ∈ c.defs → f ∈ p.fields → f.fd = .match_ d comma →
      Before (pairsOfMatch d) a b → a.key ≠ b.key) ∧
    (∀ p f1 f2, TopDef.packet p ∈ c.defs → p.root.isSome = true → Before p.fields f1 f2 →
      ¬ (isLenSyn f1 = true ∧ isLenSyn f2 = true)) ∧
    (∀ p f l1 l2 d comma, TopDef.packet p ∈ c.defs → p.fields = l1 ++ f :: l2 →
      fieldName f.fd ∉ l1.map (fun f => fieldName f.fd) → f.fd = .match_ d comma →
      (∀ a, a ∈ f.attrs → attrKeeps a = true) → d.key.text ∈ p.fields.map (fun f => fieldName f.fd)) ∧
    (∀ p f l1 l2 d, TopDef.packet p ∈ c.defs → p.root.isSome = true → p.fields = l1 ++ f :: l2 → f.fd = .len d →
      (∀ a, a ∈ f.attrs → attrKeeps a = true) → (∀ x, x ∈ l1 → isLenSyn x = false) →
      d.name.text ∉ l1.map (fun f => fieldName f.fd) →
      d.attr.from_.text ∈ p.fields.map (fun f => fieldName f.fd) ∧
        d.attr.from_.text ∉ l1.map (fun f => fieldName f.fd)) ∧
    (∀ p f d comma a b, TopDef.packet p ∈ c.defs → f ∈ p.fields → SubFd (.match_ d comma) f.fd →
      Before (pairsOfMatch d) a b → a.key ≠ b.key) ∧
    (∀ p f rep name lb rb comma a b d, TopDef.packet p ∈ c.defs → f ∈ p.fields →
      ¬ SubFd (.iner rep name lb (a ++ .len d :: b) rb comma) f.fd) ∧
    (∀ p f rep name lb rb comma' a b d comma, TopDef.packet p ∈ c.defs → f ∈ p.fields →
      SubFd (.iner rep name lb (a ++ .match_ d comma :: b) rb comma') f.fd →
      d.key.text ∈ (a ++ .match_ d comma :: b).map fieldName) ∧
    (∀ r l1 l2, metaEntries c = l1 ++ .ref r :: l2 → r.typ.text ∈ l1.map entryName) := by
  have no : ∀ d : Nat × String, d ∈ s.diags → False := by intro d h; rw [hd] at h; cases h
  have hclean := (clean_run_sound c s hr hd).1
  refine ⟨?_, ?_, ?_, ?_, ?_, ?_, ?_, ?_, ?_, ?_, ?_⟩
  · intro p q ⟨l1, l2, l3, hc⟩ ⟨hp, hq⟩
    exact no _ (second_root_run c p q l1 l2 l3 s hc hp hq (first_of_name hclean l1 _ p hc)
      (first_of_name hclean (l1 ++ .packet p :: l2) l3 q (by rw [hc]; simp)) hr)
  · intro p f l1 l2 rep ft fn doc comma hp hc hnew hfd hk
    obtain ⟨L1, L2, e⟩ := List.append_of_mem hp
    refine Classical.byContradiction fun hno => ?_
    exact no _ (unknown_field_type_run c p f L1 L2 l1 l2 rep ft fn doc comma s e (first_of_name hclean L1 L2 p e) hc hnew hfd hk
      (fun h => hno (.inl h)) (fun h => hno (.inr h)) hr)
  · intro p f l1 l2 d comma pr hp hc hnew hfd hk hpr
    obtain ⟨L1, L2, e⟩ := List.append_of_mem hp
    refine Classical.byContradiction fun hno => ?_
    exact no _ (unknown_match_target_run c p f L1 L2 l1 l2 d comma pr s e (first_of_name hclean L1 L2 p e) hc hnew hfd hk hpr
      hno hr)
  · intro p f d comma a b hp hf hfd hb hk
    exact no _ (dup_match_key_run c p f d comma a b s hp hf hfd hb hk hr)
  · intro p f1 f2 hp hroot hb ⟨h1, h2⟩
    exact no _ (dup_len_run c p f1 f2 s hp hroot hb h1 h2 hr)
  · intro p f l1 l2 d comma hp hc hnew hfd hk
    refine Classical.byContradiction fun hno => ?_
    exact no _ (unknown_key_field_run c p f d comma l1 l2 s hp hc hfd hk hnew hno hr)
  · intro p f l1 l2 d hp hroot hc hfd hk hl1 hnew
    constructor
    · refine Classical.byContradiction fun hno => ?_
      exact no _ (unknown_len_target_run c p f d l1 l2 s hp hroot hc hfd hk hl1 hnew hno hr)
    · intro hmem
      obtain ⟨t, htm, htn⟩ := List.mem_map.1 hmem
      exact no _ (len_target_before_run c p f t d l1 l2 s hp hroot hc hfd hk hl1 hnew htm htn hr)
  · intro p f d comma a b hp hf hsub hb hk
    exact no _ (dup_match_key_nested_run c p f d comma a b s hp hf hsub hb hk hr)
  · intro p f rep name lb rb comma a b d hp hf hsub
    exact no _ (len_in_inline_run c p f rep name lb rb comma a b d s hp hf hsub hr)
  · intro p f rep name lb rb comma' a b d comma hp hf hsub
    refine Classical.byContradiction fun hno => ?_
    exact no _ (unknown_key_in_inline_run c p f rep name lb rb comma' a b d comma s hp hf hsub hno hr)
  · intro r l1 l2 hc
    refine Classical.byContradiction fun hno => ?_
    exact no _ (unknown_meta_ref_run c r l1 l2 s hc hno hr)

/-! ## F. Acceptance of larger fragments -/

/-- **F (partial: the flat fragment with MetaData references).**  As `wf_accepted_partial`, for `WFRefs`
(`Proofs/VisitDiag2.lean`): a MetaData entry may also be a reference `Type name` (`RefMetaDataDeclaration`) provided `Type`
names an EARLIER MetaData entry; such an entry shares the attribute of the entry it refers to and can be used as a field
type like any other.  A well-formed file of this fragment is visited without a crash and **without any diagnostic**.

The fragment still EXCLUDES: length fields (`@lengthOf`, declaration or prefix attribute), prefix `@calculatedFrom`
attributes, fields whose type is a packet, inline objects and match fields. -/
theorem wf_accepted_refs_partial (c : Cst) (h : WFRefs c) : ∃ s, Visit.run c = .ok s ∧ s.diags = [] := by
  obtain ⟨s, hs⟩ := Visit.run_ok c
  exact ⟨s, hs, run_of_wlp (Q := fun s => s.diags = []) (visitCst_refs c h) hs⟩

/-- `MetaData M { u16 MsgType, MsgType Kind, }  root packet P { MsgType, Kind, u8 x, }` -/
private def exRefs : Cst :=
  { defs := [
      .metaD { kw := tk .metadata "MetaData" 1, name := tk .ident "M" 1, lb := tk .lbrace "{" 1,
               entries := [.decl (mdU .uint16 "u16" "MsgType" 2),
                           .ref { typ := tk .ident "MsgType" 3, name := tk .ident "Kind" 3, doc := none, comma := tk .comma "," 3 }],
               rb := tk .rbrace "}" 4 },
      .packet (pkD true "P" 5 [
        { attrs := [], fd := .obj none (tk .ident "MsgType" 6) none none (tk .comma "," 6) },
        { attrs := [], fd := .obj none (tk .ident "Kind" 7) none none (tk .comma "," 7) },
        fU8 "x" 8])] }

private theorem exRefs_wf : WFRefs exRefs := by
  refine ⟨?_, by decide, ?_, by decide, by decide, by decide, ?_⟩
  · have e1 : metaEntries exRefs = [_, _] := rfl
    rw [e1]
    exact ⟨trivial, by decide, trivial⟩
  · intro o ho
    have e1 : optDecls exRefs = [] := rfl
    rw [e1] at ho
    cases ho
  · intro p hp
    have e1 : exRefs.defs = [_, _] := rfl
    rw [e1] at hp
    simp only [List.mem_cons, List.not_mem_nil, or_false, reduceCtorEq, false_or, TopDef.packet.injEq] at hp
    subst hp
    refine ⟨?_, by decide⟩
    intro f hf
    change f ∈ [_, _, _] at hf
    simp only [List.mem_cons, List.not_mem_nil, or_false] at hf
    rcases hf with rfl | rfl | rfl
    · exact ⟨(by decide : "MsgType" ∈ metaNames exRefs), fun a ha => by cases ha⟩
    · exact ⟨(by decide : "Kind" ∈ metaNames exRefs), fun a ha => by cases ha⟩
    · exact ⟨trivial, fun a ha => by cases ha⟩

example : ∃ s, Visit.run exRefs = .ok s ∧ s.diags = [] := wf_accepted_refs_partial exRefs exRefs_wf

example : diagsOfText "MetaData M {\n u16 MsgType,\n MsgType Kind,\n}\nroot packet P {\n MsgType,\n Kind,\n u8 x,\n}\n" = some [] := by
  decide +kernel

/-- **F (partial: MetaData references and prefix `@calculatedFrom`).**  As `wf_accepted_refs_partial`, for `WFCalc`
(`Proofs/VisitDiag2.lean`): in addition a field that is not a `char[n]` field may carry prefix `@calculatedFrom(..)`
attributes (it becomes a checksum field of its type; `@tag(n)` is allowed everywhere, padding on `char[n]` fields).  A
well-formed file of this fragment is visited without a crash and **without any diagnostic**.

The fragment still EXCLUDES: length fields (`@lengthOf`, declaration or prefix attribute), `@calculatedFrom` on a `char[n]`
field, fields whose type is a packet, inline objects and match fields.  (The packet-level part of the proof,
`packetLoop_quiet`, only needs `QuietFieldSem`: visiting the field yields no diagnostic and an attribute that is basic,
`char[n]`, string or checksum.) -/
theorem wf_accepted_calc_partial (c : Cst) (h : WFCalc c) : ∃ s, Visit.run c = .ok s ∧ s.diags = [] := by
  obtain ⟨s, hs⟩ := Visit.run_ok c
  exact ⟨s, hs, run_of_wlp (Q := fun s => s.diags = []) (visitCst_calc c h) hs⟩

/-- `MetaData M { u16 MsgType, MsgType Kind, }  root packet P { Kind, @calculatedFrom("CRC32") u32 Crc, @tag(3) u8 x, }` -/
private def exCalc : Cst :=
  { defs := [
      .metaD { kw := tk .metadata "MetaData" 1, name := tk .ident "M" 1, lb := tk .lbrace "{" 1,
               entries := [.decl (mdU .uint16 "u16" "MsgType" 2),
                           .ref { typ := tk .ident "MsgType" 3, name := tk .ident "Kind" 3, doc := none, comma := tk .comma "," 3 }],
               rb := tk .rbrace "}" 4 },
      .packet (pkD true "P" 5 [
        { attrs := [], fd := .obj none (tk .ident "Kind" 6) none none (tk .comma "," 6) },
        { attrs := [.calc { kw := tk .calcFrom "@calculatedFrom(" 7, from_ := tk .string "\"CRC32\"" 7, rp := tk .rparen ")" 7 }],
          fd := (fT .uint32 "u32" "Crc" 7).fd },
        { attrs := [.tag (tk .tagAt "@tag(" 8) (tk .digits "3" 8) (tk .rparen ")" 8)], fd := (fU8 "x" 8).fd }])] }

private theorem exCalc_wf : WFCalc exCalc := by
  refine ⟨?_, by decide, ?_, by decide, by decide, by decide, ?_, ?_⟩
  · have e1 : metaEntries exCalc = [_, _] := rfl
    rw [e1]
    exact ⟨trivial, by decide, trivial⟩
  · intro o ho
    have e1 : optDecls exCalc = [] := rfl
    rw [e1] at ho
    cases ho
  · intro p hp f hf
    have e1 : exCalc.defs = [_, _] := rfl
    rw [e1] at hp
    simp only [List.mem_cons, List.not_mem_nil, or_false, reduceCtorEq, false_or, TopDef.packet.injEq] at hp
    subst hp
    change f ∈ [_, _, _] at hf
    simp only [List.mem_cons, List.not_mem_nil, or_false] at hf
    rcases hf with rfl | rfl | rfl
    · exact ⟨(by decide : "Kind" ∈ metaNames exCalc), fun a ha => by cases ha⟩
    · refine ⟨trivial, fun a ha => ?_⟩
      have : a = _ := List.mem_singleton.1 ha
      subst this
      exact fun hh => hh
    · refine ⟨trivial, fun a ha => ?_⟩
      have : a = _ := List.mem_singleton.1 ha
      subst this
      exact trivial
  · intro p hp
    have e1 : exCalc.defs = [_, _] := rfl
    rw [e1] at hp
    simp only [List.mem_cons, List.not_mem_nil, or_false, reduceCtorEq, false_or, TopDef.packet.injEq] at hp
    subst hp
    decide

example : ∃ s, Visit.run exCalc = .ok s ∧ s.diags = [] := wf_accepted_calc_partial exCalc exCalc_wf

example : diagsOfText "MetaData M {\n u16 MsgType,\n MsgType Kind,\n}\nroot packet P {\n Kind,\n @calculatedFrom(\"CRC32\") u32 Crc,\n @tag(3) u8 x,\n}\n" = some [] := by
  decide +kernel

/-- a clean run has none of the offences of E (the hypotheses of `clean_run_sound_ext` are satisfiable) -/
example (s : VState) (h : Visit.run exRefs = .ok s) (hd : s.diags = []) (p q : PacketDef)
    (hb : Before exRefs.defs (.packet p) (.packet q)) : ¬ (p.root.isSome = true ∧ q.root.isSome = true) :=
  (clean_run_sound_ext exRefs s h hd).1 p q hb

/-! ## T1: the option table of the visitor model is the table of `model.go` as it stands now

`Generated.optionsTable` is rewritten from `var options` of `/repo/internal/model/model.go` by `tools/facts` on every run of this
check (constants evaluated by go/types), so these two closed facts are re-checked against what the code says now: an option added,
removed or given another list of allowed values breaks the build of this module. -/

theorem options_table_tied : ∀ kv ∈ Generated.optionsTable, optionValues kv.1 = some kv.2 := by decide

theorem option_names_tied : Generated.optionsTable.map (·.1) = optionNames := by decide

end FinProtoc.Props
