import FinProtoc.Proofs.FmtLemmas
/-!
# C10 — formatting is idempotent and layout-canonical

Proved about the formatter MODEL:

* `hiddenLeft_fresh` / `hiddenRight_fresh`: a comment look-up prints only comments that were not
  printed before and records every comment it prints — the seen-set discipline without which a
  comment printed by `VisitPacket` and again by `VisitPacketDefinition` doubles on every pass;
* `format_layout_canonical`: the result is a function of the token stream (visible tokens, and per gap
  the comments with the line they start on) — two texts with the same `lex` format alike.

Idempotence `format (format x) = format x` and invariance under whitespace re-layout are decided per
text on the REAL formatter by the check; the Lean proof for all texts needs the character-level
re-lexing lemma of DESIGN §8 C09 and is staged.
-/
namespace FinProtoc.Props
open FinProtoc FinProtoc.Dsl FinProtoc.Fmt

theorem hiddenLeft_fresh (gaps : List (List Comment)) (t : Tok) (st : St) :
    ∃ out st', (hiddenLeft gaps t).run st = .ok (out, st') ∧
      st'.seen = st.seen ++ ((gapAt gaps t.idx).filter fun c => !st.seen.contains c.id).map Comment.id ∧
      out = String.join (((gapAt gaps t.idx).filter fun c => !st.seen.contains c.id).map fun c => c.text ++ "\n") :=
  ⟨_, _, rfl, rfl, rfl⟩

theorem hiddenRight_fresh (gaps : List (List Comment)) (t : Tok) (st : St) :
    ∃ out st', (hiddenRight gaps t).run st = .ok (out, st') ∧
      st'.seen = st.seen ++ ((gapAt gaps (t.idx + 1)).filter fun c => !st.seen.contains c.id && c.line = t.line).map Comment.id ∧
      out = String.join (((gapAt gaps (t.idx + 1)).filter fun c => !st.seen.contains c.id && c.line = t.line).map (·.text)) :=
  ⟨_, _, rfl, rfl, rfl⟩

/-- a comment that was printed once is never printed by a later left look-up -/
theorem hiddenLeft_skips_seen (gaps : List (List Comment)) (t : Tok) (st : St) (c : Comment)
    (hseen : st.seen.contains c.id = true) :
    c ∉ ((gapAt gaps t.idx).filter fun c => !st.seen.contains c.id) := by
  intro h
  have := (List.mem_filter.mp h).2
  rw [hseen] at this
  cases this

/-- the formatter factors through the lexer: texts with the same token stream (visible tokens; per gap
the comments with the line they start on) and the same number of lexical errors format alike -/
theorem format_layout_canonical (L : Layout) (x x' : String) (h : lex x = lex x') (he : lexErrors x = lexErrors x') :
    formatWith L x = formatWith L x' := by
  unfold formatWith parseFull
  rw [h, he]

end FinProtoc.Props
