import FinProtoc.Proofs.FmtLemmas
import FinProtoc.Proofs.FmtSeen
/-!
# C10 — formatting is idempotent and layout-canonical

Proved about the formatter MODEL:

* `hiddenLeft_fresh` / `hiddenRight_fresh`: a comment look-up prints only comments that were not
  printed before and records every comment it prints — the seen-set discipline without which a
  comment printed by `VisitPacket` and again by `VisitPacketDefinition` doubles on every pass;
* `format_layout_canonical`: the result is a function of the token stream (visible tokens, and per gap
  the comments with the line they start on) — two texts with the same `lex` format alike.

* `printer_seen_nodup`, `format_prints_no_comment_twice`: for every text, layout and tree, no comment is marked
  (= printed, `hiddenLeft_emits_what_it_marks` / `hiddenRight_emits_what_it_marks`) twice along the whole printer;
  `lex_gaps_distinct`: the lexer gives every comment its own id; `printer_seen_from_gaps`: only comments of the
  text are marked;
* `seen_monotone`, `hiddenLeft_marks_gap`, `hiddenRight_marks_line`, `printer_completes_every_lookup`,
  `field_comments_marked`: the marked list only grows, and when the printer has finished every comment in the
  range of every look-up it performed is marked (helper calculus in `Proofs/FmtSeen.lean`).

Idempotence `format (format x) = format x` and invariance under whitespace re-layout are decided per
text on the REAL formatter by the check; the Lean proof for all texts needs the character-level
re-lexing lemma of DESIGN §8 C09 and is staged.
-/
namespace FinProtoc.Props
open FinProtoc FinProtoc.Dsl FinProtoc.Fmt

theorem hiddenLeft_fresh (gaps : List (List Comment)) (t : Tok) (st : St) :
    ∃ out st', (hiddenLeft gaps t).run st = .ok (out, st') ∧
      st'.seen = st.seen ++ ((gapAt gaps t.idx).filter fun c => !st.seen.contains c.id).map Comment.id ∧
      out = String.join (((gapAt gaps t.idx).filter fun c => !st.seen.contains c.id).map fun c => c.text ++ "\n") :=
  ⟨_, _, rfl, rfl, rfl⟩

theorem hiddenRight_fresh (gaps : List (List Comment)) (t : Tok) (st : St) :
    ∃ out st', (hiddenRight gaps t).run st = .ok (out, st') ∧
      st'.seen = st.seen ++ ((gapAt gaps (t.idx + 1)).filter fun c => !st.seen.contains c.id && c.line = t.line).map Comment.id ∧
      out = String.join (((gapAt gaps (t.idx + 1)).filter fun c => !st.seen.contains c.id && c.line = t.line).map (·.text)) :=
  ⟨_, _, rfl, rfl, rfl⟩

/-- a comment that was printed once is never printed by a later left look-up -/
theorem hiddenLeft_skips_seen (gaps : List (List Comment)) (t : Tok) (st : St) (c : Comment)
    (hseen : st.seen.contains c.id = true) :
    c ∉ ((gapAt gaps t.idx).filter fun c => !st.seen.contains c.id) := by
  intro h
  have := (List.mem_filter.mp h).2
  rw [hseen] at this
  cases this

/-- the formatter factors through the lexer: texts with the same token stream (visible tokens; per gap
the comments with the line they start on) and the same number of lexical errors format alike -/
theorem format_layout_canonical (L : Layout) (x x' : String) (h : lex x = lex x') (he : lexErrors x = lexErrors x') :
    formatWith L x = formatWith L x' := by
  unfold formatWith parseFull
  rw [h, he]

/-! ## The seen-set along the whole printer (`Proofs/FmtSeen.lean`)

`GapsDistinct gaps` says that the comment ids are pairwise distinct, within each gap and across the gaps.  The
lexer numbers the comments of a text consecutively, so this holds for every text (`lex_gaps_distinct`); an id in
`seen` therefore stands for exactly one comment of the text. -/

/-- the lexer gives every comment of a text its own id -/
theorem lex_gaps_distinct (s : String) : GapsDistinct (lex s).gaps := lex_gapsDistinct s

/-- NO COMMENT IS PRINTED TWICE.  For every layout, every table of comments with distinct ids, every first token
and every tree: when the printer, started with nothing marked, finishes, the list of marked comment ids has no
duplicate.  A look-up appends to that list exactly the ids of the comments whose text it returns
(`hiddenLeft_fresh`, `hiddenRight_fresh`), so no comment text is returned by two look-ups. -/
theorem printer_seen_nodup (L : Layout) (gaps : List (List Comment)) (first : Option Tok) (cst : Cst) (st' : St) (t : String)
    (hg : GapsDistinct gaps) (h : (cstText L gaps first cst).run {} = .ok (t, st')) : st'.seen.Nodup :=
  cstText_nodup L hg first cst _ _ _ h List.nodup_nil

/-- the same from any state whose marked list is duplicate-free (it stays so) -/
theorem printer_seen_nodup_from (L : Layout) (gaps : List (List Comment)) (first : Option Tok) (cst : Cst) (st st' : St) (t : String)
    (hg : GapsDistinct gaps) (hs : st.seen.Nodup) (h : (cstText L gaps first cst).run st = .ok (t, st')) : st'.seen.Nodup :=
  cstText_nodup L hg first cst _ _ _ h hs

/-- only comments of the text are ever marked: every id in the final list is the id of a comment in `gaps` -/
theorem printer_seen_from_gaps (L : Layout) (gaps : List (List Comment)) (first : Option Tok) (cst : Cst) (st' : St) (t : String)
    (h : (cstText L gaps first cst).run {} = .ok (t, st')) : ∀ i ∈ st'.seen, ∃ c ∈ gaps.flatten, c.id = i := by
  intro i hi
  rcases cstText_from L gaps first cst _ _ _ h i hi with h0 | h0
  · cases h0
  · obtain ⟨c, hc, he⟩ := List.mem_map.mp h0; exact ⟨c, hc, he⟩

/-- SEEN ONLY GROWS.  Along the whole printer the marked list is only extended at its end: what was marked before
is still marked afterwards, in the same order. -/
theorem seen_monotone (L : Layout) (gaps : List (List Comment)) (first : Option Tok) (cst : Cst) (st st' : St) (t : String)
    (h : (cstText L gaps first cst).run st = .ok (t, st')) : st.seen <+: st'.seen :=
  cstText_mono L gaps first cst _ _ _ h

/-- the corollary for the formatter: an accepted text is printed without a crash, the result of `formatWith` is the
trimmed text the printer returns, and in the final state no comment id occurs twice and every id is the id of a
comment of the text -/
theorem format_prints_no_comment_twice (L : Layout) (s : String) (cst : Cst) (h : parseFull s = some cst) :
    ∃ t st', (cstText L (lex s).gaps (lex s).toks.head? cst).run {} = .ok (t, st') ∧
      formatWith L s = .ok (trimSpace t) ∧ st'.seen.Nodup ∧
      ∀ i ∈ st'.seen, ∃ c ∈ (lex s).gaps.flatten, c.id = i := by
  obtain ⟨⟨t, st'⟩, hrun⟩ := cstText_noFail L (lex s).gaps (lex s).toks.head? cst {}
  refine ⟨t, st', hrun, ?_, printer_seen_nodup L _ _ cst st' t (lex_gaps_distinct s) hrun,
    printer_seen_from_gaps L _ _ cst st' t hrun⟩
  unfold formatWith
  simp only [h, hrun]

/-- EVERY COMMENT OF A GAP A LEFT LOOK-UP READS IS PRINTED: after `hiddenLeft gaps t`, every comment of the gap
before `t` is marked (it was printed earlier, or this look-up printed it) -/
theorem hiddenLeft_marks_gap (gaps : List (List Comment)) (t : Tok) (st st' : St) (out : String)
    (h : (hiddenLeft gaps t).run st = .ok (out, st')) : ∀ c ∈ gapAt gaps t.idx, c.id ∈ st'.seen :=
  hiddenLeft_marks h

/-- after `hiddenRight gaps t`, every comment of the gap after `t` that starts on `t`'s line is marked -/
theorem hiddenRight_marks_line (gaps : List (List Comment)) (t : Tok) (st st' : St) (out : String)
    (h : (hiddenRight gaps t).run st = .ok (out, st')) :
    ∀ c ∈ gapAt gaps (t.idx + 1), c.line = t.line → c.id ∈ st'.seen :=
  hiddenRight_marks h

/-- the comments before the first token of the text are marked when the printer has finished (the first look-up
marks them, nothing un-marks) -/
theorem leading_comments_marked (L : Layout) (gaps : List (List Comment)) (first : Tok) (cst : Cst) (st st' : St) (t : String)
    (h : (cstText L gaps (some first) cst).run st = .ok (t, st')) : ∀ c ∈ gapAt gaps first.idx, c.id ∈ st'.seen := by
  unfold cstText at h
  obtain ⟨left, st1, h1, h2⟩ := run_bind_ok h
  intro c hc
  have hm : c.id ∈ st1.seen := hiddenLeft_marks h1 c hc
  have hmono : st1.seen <+: st'.seen := by
    revert h2
    cases hl : cst.defs.getLast? with
    | none => intro h2; exact Tr.pure RMono.preOrd _ _ _ _ h2
    | some last =>
      intro h2
      exact Tr.bind RMono.preOrd (Tr.mapM RMono.preOrd _ _ fun d _ =>
          topDefText_tr RMono.preOrd gaps (hiddenLeft_mono gaps) (hiddenRight_mono gaps) L d) (fun _ =>
        Tr.bind RMono.preOrd (hiddenRight_mono gaps _) fun _ => Tr.pure RMono.preOrd _) _ _ _ h2
  exact hmono.subset hm

/-- EVERY LOOK-UP THE PRINTER PERFORMS IS COMPLETE AT THE END.  `cstLooks first cst` lists the comment look-ups of a
run of the printer in the order in which it performs them (`Look.left t`: the gap before `t`; `Look.right t`: the
comments of the gap after `t` that start on `t`'s line).  When the printer has finished, for each of them every
comment it ranges over is marked — printed by that look-up or by an earlier one, and never un-marked. -/
theorem printer_completes_every_lookup (L : Layout) (gaps : List (List Comment)) (first : Option Tok) (cst : Cst)
    (st st' : St) (t : String) (h : (cstText L gaps first cst).run st = .ok (t, st')) :
    ∀ ℓ ∈ cstLooks first cst, ℓ.Done gaps st' :=
  fun ℓ hl => (cstText_does L first cst).2 ℓ hl st t st' h

/-- spelled out for the fields of a packet: every comment between the previous token and the first token of a field
definition is marked at the end, and so is every comment behind the field's closing comma on the same line -/
theorem field_comments_marked (L : Layout) (gaps : List (List Comment)) (first : Option Tok) (cst : Cst)
    (st st' : St) (t : String) (h : (cstText L gaps first cst).run st = .ok (t, st'))
    (p : PacketDef) (hp : TopDef.packet p ∈ cst.defs) (f : FieldWA) (hf : f ∈ p.fields) :
    (∀ c ∈ gapAt gaps f.fd.start.idx, c.id ∈ st'.seen) ∧
    (∀ c ∈ gapAt gaps (f.fd.stop.idx + 1), c.line = f.fd.stop.line → c.id ∈ st'.seen) := by
  have hall := printer_completes_every_lookup L gaps first cst st st' t h
  obtain ⟨last, hlast⟩ : ∃ last, cst.defs.getLast? = some last := by
    cases hl : cst.defs.getLast? with
    | none => rw [List.getLast?_eq_none_iff.mp hl] at hp; cases hp
    | some last => exact ⟨last, rfl⟩
  have hmem : ∀ ℓ ∈ fieldDefLooks f.fd, ℓ ∈ cstLooks first cst := by
    intro ℓ hl
    unfold cstLooks
    rw [hlast]
    refine List.mem_append_right _ (List.mem_append_left _ (List.mem_flatMap.mpr ⟨_, hp, ?_⟩))
    show ℓ ∈ packetDefLooks p
    unfold packetDefLooks
    exact List.mem_append_left _ (List.mem_append_right _ (List.mem_flatMap.mpr ⟨f, hf, hl⟩))
  exact ⟨hall _ (hmem _ (start_mem_fieldDefLooks f.fd)), hall _ (hmem _ (stop_mem_fieldDefLooks f.fd))⟩

/-- A COMMENT IS MARKED BY A LEFT LOOK-UP IFF ITS TEXT IS EMITTED BY IT.  There is a list `cs` of comments of the gap
before `t`, in gap order, such that the returned text is the concatenation of their texts (each followed by a
newline), the marked list grows by exactly their ids, and — ids being distinct — a comment of the text is in `cs`
exactly when it is marked afterwards and was not marked before. -/
theorem hiddenLeft_emits_what_it_marks (gaps : List (List Comment)) (t : Tok) (st st' : St) (out : String)
    (hg : GapsDistinct gaps) (h : (hiddenLeft gaps t).run st = .ok (out, st')) :
    ∃ cs : List Comment, cs.Sublist (gapAt gaps t.idx) ∧
      out = String.join (cs.map fun c => c.text ++ "\n") ∧
      st'.seen = st.seen ++ cs.map Comment.id ∧
      ∀ c ∈ gaps.flatten, (c ∈ cs ↔ c.id ∈ st'.seen ∧ c.id ∉ st.seen) := by
  obtain ⟨h1, h2⟩ := hiddenLeft_ok h
  refine ⟨leftNew gaps t st, List.filter_sublist, h1, h2, fun c hc => ?_⟩
  rw [h2]
  exact marked_iff hg (leftNew_sub gaps t st) (leftNew_fresh gaps t st) c hc

/-- the same for a right look-up (texts concatenated without separator) -/
theorem hiddenRight_emits_what_it_marks (gaps : List (List Comment)) (t : Tok) (st st' : St) (out : String)
    (hg : GapsDistinct gaps) (h : (hiddenRight gaps t).run st = .ok (out, st')) :
    ∃ cs : List Comment, cs.Sublist (gapAt gaps (t.idx + 1)) ∧
      out = String.join (cs.map (·.text)) ∧
      st'.seen = st.seen ++ cs.map Comment.id ∧
      ∀ c ∈ gaps.flatten, (c ∈ cs ↔ c.id ∈ st'.seen ∧ c.id ∉ st.seen) := by
  obtain ⟨h1, h2⟩ := hiddenRight_ok h
  refine ⟨rightNew gaps t st, List.filter_sublist, h1, h2, fun c hc => ?_⟩
  rw [h2]
  exact marked_iff hg (rightNew_sub gaps t st) (rightNew_fresh gaps t st) c hc

/-! ## Non-vacuity -/

/-- comments before, inside and after options / packet / fields / inline object / match pairs, documentation strings,
attributes, MetaData; the last comment stands on a line of its own after the closing brace -/
private def exText : String :=
  "// a\noptions { // b\n X = 1; // c\n}\nMetaData M {\n u8 T `d`,\n}\n// e\nroot packet P { // f\n // g\n T, // h\n @tag(7)\n" ++
  " u8 L @lengthOf(B) `n`, // i\n repeat H {\n  u8 V, // j\n }, // k\n match T as B {\n  // l\n  [1, 2] : Q, // m\n },\n} // n\n// o\n"

private def lIdx (ls : List Look) : List Nat := ls.filterMap fun | .left t => some t.idx | .right _ => none
private def rIdx (ls : List Look) : List Nat := ls.filterMap fun | .right t => some t.idx | .left _ => none

/-- evaluated by the kernel: the text is accepted; the printer marks the comments 0 … 12, each once, in source order;
the text has 14 comments — the last one (`// o`, on its own line after the last token) is read by no look-up; and the
list of look-ups `cstLooks` (20 of them here) names the same tokens as `Fmt.anchors`, the independent enumeration
the check uses to explain a lost comment -/
theorem exText_run :
    (match parseFull exText with
     | some cst =>
       (match (cstText {} (lex exText).gaps (lex exText).toks.head? cst).run {} with
        | .ok (_, st) => st.seen == List.range 13
        | .error _ => false) &&
       ((lex exText).gaps.flatten.map Comment.id == List.range 14) &&
       (let ls := cstLooks (lex exText).toks.head? cst
        let an := anchors cst (lex exText).toks.head?
        ls.length == 20 && lIdx ls == an.1 && (rIdx ls).all an.2.contains && an.2.all (rIdx ls).contains)
     | none => false) = true := by
  decide +kernel

/-- the hypotheses of `format_prints_no_comment_twice` are satisfiable and its conclusion is instantiated -/
example : ∃ (t : String) (st' : St), formatWith {} exText = .ok (trimSpace t) ∧ st'.seen.Nodup ∧
    (∀ i ∈ st'.seen, ∃ c ∈ (lex exText).gaps.flatten, c.id = i) := by
  cases h : parseFull exText with
  | none => have := exText_run; rw [h] at this; cases this
  | some cst =>
    obtain ⟨t, st', _, h2, h3, h4⟩ := format_prints_no_comment_twice {} exText cst h
    exact ⟨t, st', h2, h3, h4⟩

/-- the two look-ups on a concrete table: the left look-up before token 3 prints both comments of that gap, a second
one prints nothing; the right look-up after token 5 (line 2) prints only the comment on line 2 -/
example :
    let gaps : List (List Comment) := [[], [], [], [⟨"// x", 1, 0⟩, ⟨"// y", 2, 1⟩], [], [], [⟨"// z", 2, 2⟩, ⟨"// w", 3, 3⟩]]
    let t3 : Tok := { kind := .ident, text := "A", line := 2, col := 0, idx := 3 }
    let t5 : Tok := { kind := .comma, text := ",", line := 2, col := 1, idx := 5 }
    (match (do let a ← hiddenLeft gaps t3; let b ← hiddenLeft gaps t3; let c ← hiddenRight gaps t5; pure (a, b, c) : F _).run {} with
     | .ok ((a, b, c), st) => a == "// x\n// y\n" && b == "" && c == "// z" && st.seen == [0, 1, 2]
     | .error _ => false) = true := by
  decide +kernel

end FinProtoc.Props
