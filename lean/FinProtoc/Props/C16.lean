import FinProtoc.Cli
/-!
# C16 — every entry point delivers exactly the library result

Theorems on the wrapper MODEL (`Cli`), for every formatter function `fmt`, every text, every world:
`format -d` prints exactly the result plus the one line terminator of `Println` and touches no file;
`format -f` leaves exactly the result in the file and prints nothing; on a syntax error both exit
non-zero, print an error and leave every file as it was; the C export returns the result or an
`Error:`-prefixed message; an argument vector without sub-command word is the one with `compile`
inserted.  The check runs the REAL binary and the REAL shared library built from the current tree on
every text of the run and compares with the library result — which is what these theorems predict.
-/
namespace FinProtoc.Props
open FinProtoc.Cli

theorem format_d (fmt : String → Option String) (dsl r : String) (w : World) (hd : dsl ≠ "") (hr : fmt dsl = some r) :
    runFormat fmt dsl "" w = { w with stdout := w.stdout ++ r ++ "\n" } := by
  simp [runFormat, hd, hr, World.println]

theorem format_f (fmt : String → Option String) (file t r : String) (w : World) (hf : file ≠ "")
    (hfile : w.read file = some t) (hr : fmt t = some r) :
    runFormat fmt "" file w = w.write file r := by
  simp [runFormat, hf, hfile, hr]

theorem format_f_result (fmt : String → Option String) (file t r : String) (w : World) (hf : file ≠ "")
    (hfile : w.read file = some t) (hr : fmt t = some r) :
    (runFormat fmt "" file w).read file = some r ∧ (runFormat fmt "" file w).stdout = w.stdout ∧ (runFormat fmt "" file w).exit = w.exit := by
  rw [format_f fmt file t r w hf hfile hr]
  simp [World.write, World.read, List.lookup]

theorem format_f_error (fmt : String → Option String) (file t : String) (w : World) (hf : file ≠ "")
    (hfile : w.read file = some t) (hr : fmt t = none) :
    (runFormat fmt "" file w).files = w.files ∧ (runFormat fmt "" file w).exit = 1 := by
  simp [runFormat, hf, hfile, hr, World.println]

theorem format_d_error (fmt : String → Option String) (dsl : String) (w : World) (hd : dsl ≠ "") (hr : fmt dsl = none) :
    (runFormat fmt dsl "" w).files = w.files ∧ (runFormat fmt dsl "" w).exit = 1 := by
  simp [runFormat, hd, hr, World.println]

theorem export_ok (fmt : String → Option String) (dsl r : String) (hr : fmt dsl = some r) : exportFormat fmt dsl = r := by
  simp [exportFormat, hr]

theorem export_error (fmt : String → Option String) (dsl : String) (hr : fmt dsl = none) :
    (exportFormat fmt dsl).startsWith "Error:" = true := by
  simp [exportFormat, hr]

theorem implicit_compile (a : String) (rest : List String) (h : a ∉ subcommands) :
    rewriteArgs (a :: rest) = "compile" :: a :: rest := by
  simp [rewriteArgs, h]

theorem explicit_subcommand (a : String) (rest : List String) (h : a ∈ subcommands) :
    rewriteArgs (a :: rest) = a :: rest := by
  simp [rewriteArgs, h]

example : rewriteArgs ["-f", "x.dsl", "-g", "out"] = rewriteArgs ["compile", "-f", "x.dsl", "-g", "out"] := by decide

end FinProtoc.Props
