import FinProtoc.Cli
import FinProtoc.Proofs.CliLemmas
/-!
# C16 — every entry point delivers exactly the library result

Theorems on the wrapper MODEL (`Cli`), for every formatter function `fmt`, every text, every world:
`format -d` prints exactly the result plus the one line terminator of `Println` and touches no file;
`format -f` leaves exactly the result in the file and prints nothing; on a syntax error both exit
non-zero, print an error and leave every file as it was; the C export returns the result or an
`Error:`-prefixed message; an argument vector without sub-command word is the one with `compile`
inserted.  `compile` (`runCompile` / `runTargets` / `writeCode`, the loop of `cmd/compile.go` over `WriteCodeToFile`): after a run in
which every requested generator succeeded each path holds the bytes of the LAST write made to it, the writes being exactly the
files of the requested targets under their directories (`compile_files`); a path nobody wrote is untouched
(`compile_nowhere_else`); with non-overlapping directories every file holds exactly its generator's bytes whatever order the Go
map range delivered them in (`compile_files_disjoint`); a text with diagnostics changes no path and exits 1 (`compile_refuses`).
The wrapper model is EXECUTED on every case of the run (driver ops `format_world`, `compile_world`, `args_world`) and its world is
compared with what the real binary left behind.  The check runs the REAL binary and the REAL shared library built from the current tree on
every text of the run and compares with the library result — which is what these theorems predict.
-/
namespace FinProtoc.Props
open FinProtoc.Cli FinProtoc.Proofs.CliLemmas

theorem format_d (fmt : String → Option String) (dsl r : String) (w : World) (hd : dsl ≠ "") (hr : fmt dsl = some r) :
    runFormat fmt dsl "" w = { w with stdout := w.stdout ++ r ++ "\n" } := by
  simp [runFormat, hd, hr, World.println]

theorem format_f (fmt : String → Option String) (file t r : String) (w : World) (hf : file ≠ "")
    (hfile : w.read file = some t) (hr : fmt t = some r) :
    runFormat fmt "" file w = w.write file r := by
  simp [runFormat, hf, hfile, hr]

theorem format_f_result (fmt : String → Option String) (file t r : String) (w : World) (hf : file ≠ "")
    (hfile : w.read file = some t) (hr : fmt t = some r) :
    (runFormat fmt "" file w).read file = some r ∧ (runFormat fmt "" file w).stdout = w.stdout ∧ (runFormat fmt "" file w).exit = w.exit := by
  rw [format_f fmt file t r w hf hfile hr]
  simp [World.write, World.read, List.lookup]

theorem format_f_error (fmt : String → Option String) (file t : String) (w : World) (hf : file ≠ "")
    (hfile : w.read file = some t) (hr : fmt t = none) :
    (runFormat fmt "" file w).files = w.files ∧ (runFormat fmt "" file w).exit = 1 := by
  simp [runFormat, hf, hfile, hr, World.println]

theorem format_d_error (fmt : String → Option String) (dsl : String) (w : World) (hd : dsl ≠ "") (hr : fmt dsl = none) :
    (runFormat fmt dsl "" w).files = w.files ∧ (runFormat fmt dsl "" w).exit = 1 := by
  simp [runFormat, hd, hr, World.println]

theorem export_ok (fmt : String → Option String) (dsl r : String) (hr : fmt dsl = some r) : exportFormat fmt dsl = r := by
  simp [exportFormat, hr]

theorem export_error (fmt : String → Option String) (dsl : String) (hr : fmt dsl = none) :
    (exportFormat fmt dsl).startsWith "Error:" = true := by
  simp [exportFormat, hr]

theorem implicit_compile (a : String) (rest : List String) (h : a ∉ subcommands) :
    rewriteArgs (a :: rest) = "compile" :: a :: rest := by
  simp [rewriteArgs, h]

theorem explicit_subcommand (a : String) (rest : List String) (h : a ∈ subcommands) :
    rewriteArgs (a :: rest) = a :: rest := by
  simp [rewriteArgs, h]

example : rewriteArgs ["-f", "x.dsl", "-g", "out"] = rewriteArgs ["compile", "-f", "x.dsl", "-g", "out"] := by decide

/-- **compile writes exactly the generators' file set, byte for byte, and nowhere else.**  After a run in which every
requested generator succeeded, a path holds the content of the LAST write made to it (`writes`: every file of every
requested target under that target's directory, in the order of the generator table), and a path nobody wrote holds
what it held before; the exit status is untouched. -/
theorem compile_files (ts : List Target) (w : World) (h : allOk ts = true) (p : String) :
    (runTargets ts w).read p = ((writes ts).reverse.lookup p).or (w.read p) ∧ (runTargets ts w).exit = w.exit := by
  induction ts generalizing w with
  | nil => simp [runTargets, writes]
  | cons t ts ih =>
    unfold runTargets writes
    unfold allOk at h
    by_cases hp : t.path = ""
    · simp only [hp, ↓reduceIte]
      simp only [hp, decide_true, Bool.true_or, Bool.true_and] at h
      exact ih w h
    · simp only [hp, ↓reduceIte]
      cases hg : t.gen with
      | error e => simp [hp, hg] at h
      | ok files =>
        simp only [hp, hg, decide_false, Bool.false_or, Bool.true_and] at h
        simp only []
        obtain ⟨h1, h2⟩ := ih (writeCode t.path files w) h
        rw [h1, h2, writeCode_eq, read_foldl_write, exit_foldl_write, List.reverse_append, List.lookup_append]
        constructor
        · cases (List.lookup p (writes ts).reverse) <;> simp
        · rfl

/-- when no path is written twice (the file names of one target are the keys of a Go map, and the requested directories
do not overlap), every written path ends up with exactly the bytes its generator produced — in whatever order the map
range of `WriteCodeToFile` happened to deliver the files -/
theorem compile_files_disjoint (ts : List Target) (w : World) (h : allOk ts = true)
    (hn : ((writes ts).map Prod.fst).Nodup) (p c : String) (hm : (p, c) ∈ writes ts) :
    (runTargets ts w).read p = some c := by
  rw [(compile_files ts w h p).1]
  have : (writes ts).reverse.lookup p = some c :=
    lookup_of_mem_nodup _ p c (by rw [List.map_reverse]; unfold List.Nodup at *; rw [List.pairwise_reverse]; exact hn.imp (fun h => fun e => h e.symm)) (List.mem_reverse.mpr hm)
  rw [this]; rfl

/-- … and nowhere else -/
theorem compile_nowhere_else (ts : List Target) (w : World) (h : allOk ts = true) (p : String)
    (hp : p ∉ (writes ts).map Prod.fst) : (runTargets ts w).read p = w.read p := by
  rw [(compile_files ts w h p).1]
  have : (writes ts).reverse.lookup p = none := by
    rw [List.lookup_eq_none_iff]
    intro x hx
    have hx' := List.mem_reverse.mp hx
    simp only [bne_iff_ne, ne_eq]
    intro e
    exact hp (List.mem_map.mpr ⟨x, hx', e.symm⟩)
  rw [this]; rfl

/-- a text with diagnostics never reaches a generator: no path changes and the exit status is 1 (C12's "no output file written") -/
theorem compile_refuses (diags : List String) (ts : List Target) (w : World) (h : diags ≠ []) (p : String) :
    (runCompile diags ts w).read p = w.read p ∧ (runCompile diags ts w).exit = 1 := by
  unfold runCompile
  have : diags.isEmpty = false := by cases diags <;> simp_all
  simp only [this, Bool.false_eq_true, ↓reduceIte, and_true]
  exact read_foldl_println diags w p

/-- a well-formed text: `compile` is the generator loop -/
theorem compile_accepts (ts : List Target) (w : World) : runCompile [] ts w = runTargets ts w := rfl



/-- `WriteCodeToFile` ranges over a Go map: the files arrive in any order.  With distinct names (map keys are) the directory
ends up the same whatever the order. -/
theorem writeCode_order_free (dir : String) (fs fs' : List (String × String)) (w : World) (p : String)
    (hp : fs.Perm fs') (hn : (fs.map Prod.fst).Nodup) :
    (writeCode dir fs w).read p = (writeCode dir fs' w).read p := by
  rw [writeCode_eq, writeCode_eq, read_foldl_write, read_foldl_write]
  congr 1
  apply lookup_perm
  · exact (List.reverse_perm _).trans (((hp.map _)).trans (List.reverse_perm _).symm)
  · rw [List.map_reverse, List.map_map]
    unfold List.Nodup
    rw [List.pairwise_reverse]
    have : (List.map (Prod.fst ∘ fun f : String × String => (outPath dir f.1, f.2)) fs) = (fs.map Prod.fst).map (outPath dir) := by
      rw [List.map_map]; rfl
    rw [this]
    exact (List.Pairwise.map _ (fun a b hab e => hab (outPath_inj dir _ _ e.symm)) hn)

/-- non-vacuity: two targets, one overwriting an existing longer file, one path left alone -/
example :
    let ts : List Target := [⟨"Lua", "", .ok [("x.lua", "l")]⟩, ⟨"Go", "o/go", .ok [("a.go", "A"), ("b.go", "B")]⟩, ⟨"Java", "o/java", .ok [("A.java", "J")]⟩]
    let w : World := { files := [("o/go/a.go", "OLD LONGER"), ("keep.txt", "k")] }
    allOk ts = true ∧ ((writes ts).map Prod.fst).Nodup ∧ (runTargets ts w).read "o/go/a.go" = some "A" ∧ (runTargets ts w).read "keep.txt" = some "k"
      ∧ (runTargets ts w).read "x.lua" = none ∧ (runTargets ts w).exit = 0 := by decide

end FinProtoc.Props
