import FinProtoc.Props.C01
import FinProtoc.Props.C02
/-!
# C03 — all target languages agree on the wire

Corollaries of C01 (and C02 for the decoder half): any two programs the validators accept
for the same schema — e.g. the Go and the Rust output for one DSL — are interchangeable.
The check requires all five real outputs of a DSL to be accepted.
-/
namespace FinProtoc.Props
open FinProtoc FinProtoc.IR FinProtoc.Conforms FinProtoc.Wire

/-- two accepted programs — e.g. the Go and the Rust output for the same
DSL — produce byte-identical output. -/
theorem enc_agree (S : Schema) (P₁ P₂ : Prog) (h₁ : confEnc S P₁ = true) (h₂ : confEnc S P₂ = true)
    (reg : Registry) (pkt : String) (vs : List Val) (acc r : Bytes)
    (hsafe : lenSafeVal S (.obj pkt) (.struct vs) = true) (hwire : Wire.enc S reg pkt vs acc = some r)
    (fuel : Nat) (hd : depthList vs < fuel) :
    encStruct P₁ reg fuel pkt vs acc = encStruct P₂ reg fuel pkt vs acc := by
  rw [enc_sound S P₁ h₁ reg pkt vs acc r hsafe hwire fuel hd, enc_sound S P₂ h₂ reg pkt vs acc r hsafe hwire fuel hd]


/-- the decoder of one accepted program reads what the encoder of another accepted program wrote,
wherever the declared decoder reads it (`dec_sound`); see C02 for the declared round trip. -/
theorem cross (S : Schema) (P₁ P₂ : Prog) (h₁ : confEnc S P₁ = true) (h₂ : confDec S P₂ = true)
    (reg : Registry) (pkt : String) (vs : List Val) (xs sfx : Bytes)
    (hsafe : lenSafeVal S (.obj pkt) (.struct vs) = true) (hwire : Wire.enc S reg pkt vs [] = some xs)
    (fuel : Nat) (hd : depthList vs < fuel) (vs' : List Val) (rest : Bytes)
    (hdec : Wire.dec S fuel pkt (xs ++ sfx) = some (vs', rest)) :
    ∃ ys, encStruct P₁ reg fuel pkt vs [] = some ys ∧ decStruct P₂ fuel pkt (ys ++ sfx) = some (vs', rest) :=
  ⟨xs, enc_sound S P₁ h₁ reg pkt vs [] xs hsafe hwire fuel hd, dec_sound S P₂ h₂ fuel pkt (xs ++ sfx) vs' rest hdec⟩

/-- cross-language round trip at full strength: whatever accepted program encodes a legitimately built message, every
accepted program (same or other target) decodes it to the logically equal message and consumes exactly it -/
theorem cross_roundtrip_full (S : Schema) (P₁ P₂ : Prog) (h₁ : confEnc S P₁ = true) (h₂ : confDec S P₂ = true)
    (reg : Registry) (pkt : String) (vs : List Val) (bs : Bytes)
    (hp : Wire.mVal S [] [] false (.obj pkt) (.struct vs) = true)
    (hsafe : lenSafeVal S (.obj pkt) (.struct vs) = true)
    (hwire : Wire.enc S reg pkt vs [] = some bs) (fuel : Nat) (hfuel : depthList vs < fuel) :
    encStruct P₁ reg fuel pkt vs [] = some bs ∧
      ∀ sfx, ∃ ds p, S.find pkt = some p ∧ decStruct P₂ fuel pkt (bs ++ sfx) = some (ds, sfx) ∧
        Wire.eraseFields S p.fields ds = Wire.eraseFields S p.fields vs := by
  refine ⟨enc_sound S P₁ h₁ reg pkt vs [] bs hsafe hwire fuel hfuel, ?_⟩
  intro sfx
  obtain ⟨xs, hx, hd⟩ := Wire.dec_enc_full S reg pkt vs [] bs hp hwire
  simp only [List.nil_append] at hx
  subst hx
  obtain ⟨ds, p, hfind, hdec, her⟩ := hd fuel sfx hfuel
  exact ⟨ds, p, hfind, dec_sound S P₂ h₂ fuel pkt _ ds sfx hdec, her⟩

end FinProtoc.Props
