import FinProtoc.Props.C01
import FinProtoc.Props.C02
/-!
# C03 — all target languages agree on the wire

Corollaries of C01 (and C02 for the decoder half): any two programs the validators accept
for the same schema — e.g. the Go and the Rust output for one DSL — are interchangeable.
The check requires all five real outputs of a DSL to be accepted.
-/
namespace FinProtoc.Props
open FinProtoc FinProtoc.IR FinProtoc.Conforms FinProtoc.Wire

/-- two accepted programs — e.g. the Go and the Rust output for the same
DSL — produce byte-identical output. -/
theorem enc_agree (S : Schema) (P₁ P₂ : Prog) (h₁ : confEnc S P₁ = true) (h₂ : confEnc S P₂ = true)
    (reg : Registry) (pkt : String) (vs : List Val) (acc r : Bytes)
    (hsafe : lenSafeVal S (.obj pkt) (.struct vs) = true) (hwire : Wire.enc S reg pkt vs acc = some r)
    (fuel : Nat) (hd : depthList vs < fuel) :
    encStruct P₁ reg fuel pkt vs acc = encStruct P₂ reg fuel pkt vs acc := by
  rw [enc_sound S P₁ h₁ reg pkt vs acc r hsafe hwire fuel hd, enc_sound S P₂ h₂ reg pkt vs acc r hsafe hwire fuel hd]


/-- the decoder of one accepted program reads what the encoder of another accepted program wrote,
wherever the declared decoder reads it (`dec_sound`); see C02 for the declared round trip. -/
theorem cross (S : Schema) (P₁ P₂ : Prog) (h₁ : confEnc S P₁ = true) (h₂ : confDec S P₂ = true)
    (reg : Registry) (pkt : String) (vs : List Val) (xs sfx : Bytes)
    (hsafe : lenSafeVal S (.obj pkt) (.struct vs) = true) (hwire : Wire.enc S reg pkt vs [] = some xs)
    (fuel : Nat) (hd : depthList vs < fuel) (vs' : List Val) (rest : Bytes)
    (hdec : Wire.dec S fuel pkt (xs ++ sfx) = some (vs', rest)) :
    ∃ ys, encStruct P₁ reg fuel pkt vs [] = some ys ∧ decStruct P₂ fuel pkt (ys ++ sfx) = some (vs', rest) :=
  ⟨xs, enc_sound S P₁ h₁ reg pkt vs [] xs hsafe hwire fuel hd, dec_sound S P₂ h₂ fuel pkt (xs ++ sfx) vs' rest hdec⟩

end FinProtoc.Props
