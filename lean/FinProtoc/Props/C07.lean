import FinProtoc.Proofs.DecSound
import FinProtoc.Proofs.ConfInv
import FinProtoc.Props.C02
/-!
# C07 — successful compilation yields complete, well-formed target code

`complete_of_conf` (proved): whenever the two validators accept an emitted program, every declared
packet has its type, every declared field its member, its encode step(s) and its decode step, and no
step is a placeholder (`skip` = "nothing / marker text emitted for this field").

What a theorem cannot carry here is "valid program of its target language": that is decided per run
against the extractors' strict templates (every emitted line must be consumed — residue is a result),
the marker scan, name resolution (`unresolved member` makes the program ill-scoped), the extractors'
structural checks of boilerplate identifiers, and native parsers where the sandbox has one
(`gofmt -e`, Python `ast.parse`).  Partial by construction (DESIGN §8 C07, §12).
-/
namespace FinProtoc.Props
open FinProtoc FinProtoc.IR FinProtoc.Conforms FinProtoc.Wire

def EStep.isSkip : EStep → Bool
  | .skip _ => true
  | _ => false
def DStep.isSkip : DStep → Bool
  | .skip _ => true
  | _ => false

/-- every declared packet has a struct with one member per field, at least one encode step and exactly
one decode step per field, none of them a placeholder -/
def Complete (S : Schema) (P : Prog) : Prop :=
  ∀ p ∈ S.packets, ∃ st, P.find p.name = some st ∧ st.members.length = p.fields.length ∧
    p.fields.length ≤ st.enc.length ∧ st.dec.length = p.fields.length ∧
    (∀ s ∈ st.enc, EStep.isSkip s = false) ∧ (∀ s ∈ st.dec, DStep.isSkip s = false)

theorem plainOkE_noskip {S : Schema} {i : Nat} {f : Field} {st : EStep} (h : plainOkE S i f st = true) : EStep.isSkip st = false := by
  cases st <;> first | rfl | (exfalso; unfold plainOkE at h; split at h <;> first | (simp at h; done) | (cases hk : f.kind <;> simp [hk] at h))

theorem plainOkD_noskip {S : Schema} {P : Prog} {all : List Field} {i : Nat} {f : Field} {st : DStep}
    (h : plainOkD S P all i f st = true) : DStep.isSkip st = false := by
  cases st <;> first | rfl | (exfalso; unfold plainOkD at h; split at h <;> first | (simp at h; done) | (cases hk : f.kind <;> simp [hk] at h))

theorem confFieldsE_complete {S : Schema} {all : List Field} :
    ∀ (fs : List Field) (pend : Option Pending) (i : Nat) (steps : List EStep), confFieldsE S all pend i fs steps = true →
      fs.length ≤ steps.length ∧ ∀ s ∈ steps, EStep.isSkip s = false := by
  intro fs
  induction fs with
  | nil =>
    intro pend i steps h
    cases pend with
    | some p => simp [confFieldsE] at h
    | none =>
      cases steps <;> simp [confFieldsE] at h
      exact ⟨by simp, by simp⟩
  | cons f fs ih =>
    intro pend i steps h
    cases hrole : roleOf pend f with
    | len t target =>
      obtain ⟨le1, pv, rest, rfl, _, hrest⟩ := confFieldsE_len hrole h
      obtain ⟨hl', hs'⟩ := ih _ (i + 1) rest hrest
      refine ⟨by simp; omega, ?_⟩
      intro s hs
      rcases List.mem_cons.mp hs with rfl | hs
      · rfl
      · exact hs' s hs
    | target p =>
      obtain ⟨sv, st2, ev, le2, slice, rest, rfl, _, _, _, _, _, _, _, _, hp2, hrest⟩ := confFieldsE_target hrole h
      obtain ⟨hl', hs'⟩ := ih _ (i + 1) rest hrest
      refine ⟨by simp; omega, ?_⟩
      intro s hs
      simp only [List.mem_cons] at hs
      rcases hs with rfl | rfl | rfl | rfl | hs
      · rfl
      · exact plainOkE_noskip hp2
      · rfl
      · rfl
      · exact hs' s hs
    | plain =>
      obtain ⟨st, rest, rfl, hp, hrest⟩ := confFieldsE_plain hrole h
      obtain ⟨hl', hs'⟩ := ih _ (i + 1) rest hrest
      refine ⟨by simp; omega, ?_⟩
      intro s hs
      rcases List.mem_cons.mp hs with rfl | hs
      · exact plainOkE_noskip hp
      · exact hs' s hs
    | bad => exact (confFieldsE_bad hrole h).elim

theorem confFieldsD_complete {S : Schema} {P : Prog} {all : List Field} :
    ∀ (fs : List Field) (i : Nat) (steps : List DStep), confFieldsD S P all i fs steps = true →
      steps.length = fs.length ∧ ∀ s ∈ steps, DStep.isSkip s = false := by
  intro fs
  induction fs with
  | nil => intro i steps h; cases steps <;> simp [confFieldsD] at h; exact ⟨rfl, by simp⟩
  | cons f fs ih =>
    intro i steps h
    cases steps with
    | nil => simp [confFieldsD] at h
    | cons st rest =>
      simp only [confFieldsD, Bool.and_eq_true] at h
      obtain ⟨hl, hs⟩ := ih (i + 1) rest h.2
      refine ⟨by simp [hl], ?_⟩
      intro s hmem
      rcases List.mem_cons.mp hmem with rfl | hmem
      · exact plainOkD_noskip h.1
      · exact hs s hmem

theorem complete_of_conf (S : Schema) (P : Prog) (he : confEnc S P = true) (hd : confDec S P = true) : Complete S P := by
  intro p hp
  have hpe : confPacketE S P p = true := List.all_eq_true.mp he p hp
  have hpd : confPacketD S P p = true := List.all_eq_true.mp hd p hp
  unfold confPacketE at hpe
  unfold confPacketD at hpd
  cases hst : P.find p.name with
  | none => simp [hst] at hpe
  | some st =>
    simp only [hst, Bool.and_eq_true, decide_eq_true_eq] at hpe hpd
    obtain ⟨hle, hse⟩ := confFieldsE_complete p.fields none 0 st.enc hpe.2
    obtain ⟨hld, hsd⟩ := confFieldsD_complete p.fields 0 st.dec hpd.2
    exact ⟨st, rfl, hpe.1, hle, hld, hse, hsd⟩

example : Complete exS { exP with structs := exP.structs.zipWith (fun a b => { a with dec := b.dec }) exPD.structs, tables := exPD.tables } :=
  complete_of_conf _ _ (by decide) (by decide)

end FinProtoc.Props
