import FinProtoc.SelfTest
import FinProtoc.Props.C02
/-!
# C17 — the emitted self-tests build a sample, round-trip it and pass

The emitted test of every packet is extracted to `SelfTest.Test` (sample expression + fix-ups) by
`/verif/tv/tests.py`; the per-target facts are `SelfTest.Flags`.

* `selftest_passes`: for EVERY schema, EVERY emitted program the two validators accept, every test,
  registry and fuel: if the *declared* wire format passes the test on its sample (`specOk`, an
  executable condition the check evaluates per emitted test, with and without a checksum service) then the
  test run against the emitted codec passes — the sample is built, the emitted encoder succeeds, the emitted
  decoder succeeds and the assertion holds.
* `selftest_outcome`: more generally the two runs have the same outcome whenever the declared encoder and
  decoder are defined on the sample (so a failing assertion predicted by the specification is the emitted
  test's failure, not an artefact of the model).
* `computed_members_never_matter_with_storeback`: with store-back (Go, Java, Python templates) the literal
  chosen for a top-level length / checksum member cannot make the assertion fail.

What stays per-run (DESIGN §8 C17): "for every accepted DSL" is discharged on the real output of every program
of the run; that the emitted test text is a *valid program* of its language is decided by the extractor's
statement templates and typing rules for literals (an unrecognised line is residue = violation), and, as
supporting evidence, by building and running the emitted tests with the target's own toolchain against the
stand-in runtimes of `/verif/runtime` (correspondence: the model's predicted outcome must equal the real one).
-/
namespace FinProtoc.Props
open FinProtoc FinProtoc.IR FinProtoc.Conforms FinProtoc.Wire FinProtoc.SelfTest

theorem selftest_outcome (S : Schema) (P : Prog) (hE : confEnc S P = true) (hD : confDec S P = true)
    (fl : Flags) (reg : Registry) (fuel : Nat) (t : Test) (vs : List Val) (bs : Bytes) (ds : List Val) (rest : Bytes)
    (hs : sampleVals S P fl t = .ok vs)
    (hsafe : lenSafeVal S (.obj t.pkt) (.struct vs) = true) (hfuel : depthList vs < fuel)
    (henc : Wire.enc S reg t.pkt vs [] = some bs) (hdec : Wire.dec S fuel t.pkt bs = some (ds, rest)) :
    emittedRun S P fl reg fuel t = specRun S P fl reg fuel t := by
  have h1 := enc_sound S P hE reg t.pkt vs [] bs hsafe henc fuel hfuel
  have h2 := dec_sound S P hD fuel t.pkt bs ds rest hdec
  simp only [emittedRun, specRun, run, hs, h1, h2, henc, hdec]

theorem selftest_passes (S : Schema) (P : Prog) (hE : confEnc S P = true) (hD : confDec S P = true)
    (fl : Flags) (reg : Registry) (fuel : Nat) (t : Test) (h : specOk S P fl reg fuel t = true) :
    emittedRun S P fl reg fuel t = .pass := by
  unfold specOk at h
  rw [Bool.and_eq_true] at h
  obtain ⟨hdom, hrun⟩ := h
  cases hs : sampleVals S P fl t with
  | error e => simp [hs] at hdom
  | ok vs =>
    simp only [hs, Bool.and_eq_true, decide_eq_true_eq] at hdom
    obtain ⟨hsafe, hfuel⟩ := hdom
    have hrun' : specRun S P fl reg fuel t = .pass := by simpa using hrun
    cases henc : Wire.enc S reg t.pkt vs [] with
    | none => simp [specRun, run, hs, henc] at hrun'
    | some bs =>
      cases hdec : Wire.dec S fuel t.pkt bs with
      | none => simp [specRun, run, hs, henc, hdec] at hrun'
      | some r =>
        obtain ⟨ds, rest⟩ := r
        rw [selftest_outcome S P hE hD fl reg fuel t vs bs ds rest hs hsafe hfuel henc hdec]
        exact hrun'

/-- with store-back, replacing the literal of a computed top-level member changes nothing in the comparison:
`adjFields` overwrites it with the decoded value whatever it was -/
theorem adj_ignores_computed (S : Schema) (fix : List Nat) (i : Nat) (f : Field) (fs : List Field) (v v' d : Val)
    (vs ds : List Val) (hrep : f.rep = false) (hk : isComputed f.kind = true) :
    adjFields S true fix i (f :: fs) (v :: vs) (d :: ds) = adjFields S true fix i (f :: fs) (v' :: vs) (d :: ds) := by
  have hc : (!f.rep && isComputed f.kind && (true || fix.contains i)) = true := by simp [hrep, hk]
  rw [adjFields, adjFields, if_pos hc, if_pos hc]

/-! Non-vacuity: the C01/C02 example schema and programs merged, a Go-style test (store-back) and a Rust-style
test (fix-ups) of `Msg`, with and without a checksum service. -/
def exPT : Prog :=
  { structs := [
      { name := "Msg", members := [⟨"Kind", "uint16"⟩, ⟨"Len", "uint32"⟩, ⟨"Body", "codec.BinaryCodec"⟩, ⟨"Ck", "uint32"⟩],
        enc := [.scalar 2 true 0, .slot 4 true "bodyPos", .mark "bodyStart", .dynamic 2, .mark "bodyEnd",
                .patch 4 true "bodyPos" "bodyStart" "bodyEnd" (some 4), .checksum "\"CRC32\"" 4 true 3],
        dec := [.scalar 2 true 0, .scalar 4 true 1, .dispatch 0 "NewMsgMessageByKind" 2, .scalar 4 true 3] },
      { name := "Logon", members := [⟨"User", "string"⟩, ⟨"Tags", "[]string"⟩],
        enc := [.fixed 4 (some { ch := 48, left := true }) 0, .list 2 true (.string 1 false .unsigned) 1],
        dec := [.fixed 4 (some { ch := 48, left := true }) 0, .list 2 true .unsigned (.string 1 false .unsigned) 1] }],
    tables := [{ name := "NewMsgMessageByKind", entries := [(.int 1, "Logon")], keyWidth := some 2, errOnMiss := true }] }

def exSample : SExpr :=
  .obj "Msg" [("Kind", .int 1), ("Len", .int 4), ("Ck", .int 4),
              ("Body", .obj "Logon" [("User", .str [120, 120, 120, 120]), ("Tags", .list [.str [104, 105]])])]

def exGoTest : Test := { name := "TestMsgCodec", pkt := "Msg", sample := exSample }
def exRustTest : Test := { name := "test_msg_codec", pkt := "Msg", sample := exSample, fixups := [1, 3] }
def exBadTest : Test := { name := "forgot the fix-ups", pkt := "Msg", sample := exSample }
def goFlags : Flags := { storeBack := true, dupIsError := true }
def rustFlags : Flags := { storeBack := false, dupIsError := true }
def sumReg : Registry := fun _ => some fun b => b.foldl (fun a x => a + x.toNat) 0

example : confEnc exS exPT = true := by decide
example : confDec exS exPT = true := by decide
example : specOk exS exPT goFlags (fun _ => none) 8 exGoTest = true := by decide
example : specOk exS exPT goFlags sumReg 8 exGoTest = true := by decide
example : specOk exS exPT rustFlags sumReg 8 exRustTest = true := by decide
example : emittedRun exS exPT rustFlags sumReg 8 exRustTest = .pass := by decide
-- a Rust-style test without fix-ups fails its assertion (the literal 4 is not the length of the body), in the
-- specification and in the emitted program alike
example : specRun exS exPT rustFlags sumReg 8 exBadTest = .mismatch := by decide
example : emittedRun exS exPT rustFlags sumReg 8 exBadTest = .mismatch := by decide

end FinProtoc.Props
