import FinProtoc.Props.C01
/-!
# C04 — length-of fields are computed from the bytes actually written

On the wire a length-of field holds the number of bytes its target's encoding occupies, in
its own width and the configured order, whatever the caller stored (`length_value`,
`length_ignores_caller`); the number is exactly what the target's encoding appends
(`target_bytes`).  By `enc_sound` (C01) every accepted emitted encoder writes these very
bytes, through its slot / mark / patch sequence.
-/
namespace FinProtoc.Props
open FinProtoc FinProtoc.IR FinProtoc.Conforms FinProtoc.Wire

/-- the bytes of a length-of field: the size of the target, not the caller's value `n` -/
theorem length_value (S : Schema) (reg : Registry) (cf : List Field) (cv : List Val) (t : Scalar) (target : String)
    (n : Nat) (acc r : Bytes) (h : encVal S reg cf cv (.lengthOf t target) (.int n) acc = some r) :
    ∃ m, lookupSize S cf cv target = some m ∧ r = acc ++ encInt S.cfg.le t.width m := by
  simp only [encVal] at h
  obtain ⟨m, hm, h⟩ := bind_eq_some'.mp h
  exact ⟨m, hm, by simpa using h.symm⟩

theorem length_ignores_caller (S : Schema) (reg : Registry) (cf : List Field) (cv : List Val) (t : Scalar) (target : String)
    (n n' : Nat) (acc : Bytes) :
    encVal S reg cf cv (.lengthOf t target) (.int n) acc = encVal S reg cf cv (.lengthOf t target) (.int n') acc := by
  simp [encVal]

/-- `sizeField` is the number of bytes the target's own encoding appends to the buffer -/
theorem target_bytes (S : Schema) (reg : Registry) (cf : List Field) (cv : List Val) (k : FKind) (v : Val) (acc r : Bytes)
    (h : encVal S reg cf cv k v acc = some r) :
    ∃ xs, r = acc ++ xs ∧ sizeVal S k v = some xs.length := encVal_size h

/-- the emitted slot/patch sequence produces these bytes (instance of C01) -/
theorem emitted_length (S : Schema) (P : Prog) (hconf : confEnc S P = true) (reg : Registry)
    (pkt : String) (vs : List Val) (acc r : Bytes)
    (hsafe : lenSafeVal S (.obj pkt) (.struct vs) = true) (hwire : Wire.enc S reg pkt vs acc = some r)
    (fuel : Nat) (hd : depthList vs < fuel) : encStruct P reg fuel pkt vs acc = some r :=
  enc_sound S P hconf reg pkt vs acc r hsafe hwire fuel hd

/-- non-vacuity: in the example of C01 the slot holds 10 = |Logon payload| although the caller stored 999 -/
example : Wire.lookupSize exS ((exS.find "Msg").get!.fields) exV "Body" = some 10 := by decide

end FinProtoc.Props
