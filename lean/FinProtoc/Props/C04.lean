import FinProtoc.Props.C01
/-!
# C04 — length-of fields are computed from the bytes actually written

On the wire a length-of field holds the number of bytes its target's encoding occupies, in
its own width and the configured order, whatever the caller stored (`length_value`,
`length_ignores_caller`); the number is exactly what the target's encoding appends
(`target_bytes`).  By `enc_sound` (C01) every accepted emitted encoder writes these very
bytes, through its slot / mark / patch sequence — wherever the length field stands before its target: the
validator (`Conforms.confFieldsE`, state `Pending`) follows the slot written at the length field, the ordinary
steps of the fields in between, and `mark; target; mark; patch` at the target, and `enc_sound` covers all of it
(messages in which no checksum field lies between the length field and the end of its target, `lenSafe`).
-/
namespace FinProtoc.Props
open FinProtoc FinProtoc.IR FinProtoc.Conforms FinProtoc.Wire

/-- the bytes of a length-of field: the size of the target, not the caller's value `n` -/
theorem length_value (S : Schema) (reg : Registry) (cf : List Field) (cv : List Val) (t : Scalar) (target : String)
    (n : Nat) (acc r : Bytes) (h : encVal S reg cf cv (.lengthOf t target) (.int n) acc = some r) :
    ∃ m, lookupSize S cf cv target = some m ∧ r = acc ++ encInt S.cfg.le t.width m := by
  simp only [encVal] at h
  obtain ⟨m, hm, h⟩ := bind_eq_some'.mp h
  exact ⟨m, hm, by simpa using h.symm⟩

theorem length_ignores_caller (S : Schema) (reg : Registry) (cf : List Field) (cv : List Val) (t : Scalar) (target : String)
    (n n' : Nat) (acc : Bytes) :
    encVal S reg cf cv (.lengthOf t target) (.int n) acc = encVal S reg cf cv (.lengthOf t target) (.int n') acc := by
  simp [encVal]

/-- `sizeField` is the number of bytes the target's own encoding appends to the buffer -/
theorem target_bytes (S : Schema) (reg : Registry) (cf : List Field) (cv : List Val) (k : FKind) (v : Val) (acc r : Bytes)
    (h : encVal S reg cf cv k v acc = some r) :
    ∃ xs, r = acc ++ xs ∧ sizeVal S k v = some xs.length := encVal_size h

/-- the emitted slot/patch sequence produces these bytes (instance of C01) -/
theorem emitted_length (S : Schema) (P : Prog) (hconf : confEnc S P = true) (reg : Registry)
    (pkt : String) (vs : List Val) (acc r : Bytes)
    (hsafe : lenSafeVal S (.obj pkt) (.struct vs) = true) (hwire : Wire.enc S reg pkt vs acc = some r)
    (fuel : Nat) (hd : depthList vs < fuel) : encStruct P reg fuel pkt vs acc = some r :=
  enc_sound S P hconf reg pkt vs acc r hsafe hwire fuel hd

/-- non-vacuity: in the example of C01 the slot holds 10 = |Logon payload| although the caller stored 999 -/
example : Wire.lookupSize exS ((exS.find "Msg").get!.fields) exV "Body" = some 10 := by decide

/-! Non-vacuity for a length field that is NOT directly followed by its target: two ordinary fields (one of them a
list) stand between `Len` and `Body`; the emitted slot / …steps… / mark / target / mark / patch sequence is accepted
and produces the declared bytes (the caller's 999 is ignored, the slot ends up holding 10). -/
def farS : Schema :=
  { cfg := { le := false, strPfx := .u8, listPfx := .u16, pad := Pad.default },
    packets := [
      { name := "Msg", root := true, fields := [
          { name := "Kind", kind := .scalar .u16 },
          { name := "Len", kind := .lengthOf .u32 "Body" },
          { name := "Seq", kind := .scalar .u8 },
          { name := "Tags", kind := .dyn, rep := true },
          { name := "Body", kind := .matchOn "Kind" [(.int 1, "Logon")] }] },
      { name := "Logon", fields := [
          { name := "User", kind := .fixed 4 { ch := 48, left := true } },
          { name := "Tags", kind := .dyn, rep := true }] }] }

def farP : Prog :=
  { structs := [
      { name := "Msg", members := [⟨"Kind", "uint16"⟩, ⟨"Len", "uint32"⟩, ⟨"Seq", "uint8"⟩, ⟨"Tags", "[]string"⟩, ⟨"Body", "codec.BinaryCodec"⟩],
        enc := [.scalar 2 false 0, .slot 4 false "bodyPos", .scalar 1 false 2, .list 2 false (.string 1 false .unsigned) 3,
                .mark "bodyStart", .dynamic 4, .mark "bodyEnd", .patch 4 false "bodyPos" "bodyStart" "bodyEnd" (some 4)],
        dec := [] },
      { name := "Logon", members := [⟨"User", "string"⟩, ⟨"Tags", "[]string"⟩],
        enc := [.fixed 4 (some { ch := 48, left := true }) 0, .list 2 false (.string 1 false .unsigned) 1],
        dec := [] }],
    tables := [] }

def farV : List Val := [.int 1, .int 999, .int 7, .list [.str [120]], .dyn "Logon" [.str [65, 66], .list [.str [104, 105], .str []]]]

example : confEnc farS farP = true := by decide
example : lenSafeVal farS (.obj "Msg") (.struct farV) = true := by decide
example : Wire.enc farS (fun _ => none) "Msg" farV [] =
    some [0, 1, 0, 0, 0, 10, 7, 0, 1, 1, 120, 48, 48, 65, 66, 0, 2, 2, 104, 105, 0] := by decide
example : encStruct farP (fun _ => none) 3 "Msg" farV [] =
    some [0, 1, 0, 0, 0, 10, 7, 0, 1, 1, 120, 48, 48, 65, 66, 0, 2, 2, 104, 105, 0] := by decide

end FinProtoc.Props
