import FinProtoc.Props.C01
/-!
# C06 — checksum fields cover exactly the preceding bytes

`checksum_value`: the field is the registered algorithm's value over exactly the buffer
written so far (for EVERY registry: registered or not is universally quantified), in the
declared width and configured order; otherwise the caller's value.  By `enc_sound` (C01)
every accepted emitted encoder writes these bytes; `confDec` demands that decoders read the
field with the same width and order (C02).
-/
namespace FinProtoc.Props
open FinProtoc FinProtoc.IR FinProtoc.Conforms FinProtoc.Wire

theorem checksum_value (S : Schema) (reg : Registry) (cf : List Field) (cv : List Val) (t : Scalar) (algo : String)
    (n : Nat) (acc : Bytes) :
    encVal S reg cf cv (.checksum t algo) (.int n) acc =
      some (acc ++ encInt S.cfg.le t.width (match reg algo with | some f => f acc | none => n)) := by
  simp only [encVal]; rfl

theorem checksum_registered (S : Schema) (reg : Registry) (cf : List Field) (cv : List Val) (t : Scalar) (algo : String)
    (f : Bytes → Nat) (hreg : reg algo = some f) (n : Nat) (acc : Bytes) :
    encVal S reg cf cv (.checksum t algo) (.int n) acc = some (acc ++ encInt S.cfg.le t.width (f acc)) := by
  simp [encVal, hreg]

theorem checksum_unregistered (S : Schema) (reg : Registry) (cf : List Field) (cv : List Val) (t : Scalar) (algo : String)
    (hreg : reg algo = none) (n : Nat) (acc : Bytes) :
    encVal S reg cf cv (.checksum t algo) (.int n) acc = some (acc ++ encInt S.cfg.le t.width n) := by
  simp [encVal, hreg]

/-- the emitted checksum step writes these bytes (instance of C01) -/
theorem emitted_checksum (S : Schema) (P : Prog) (hconf : confEnc S P = true) (reg : Registry)
    (pkt : String) (vs : List Val) (acc r : Bytes)
    (hsafe : lenSafeVal S (.obj pkt) (.struct vs) = true) (hwire : Wire.enc S reg pkt vs acc = some r)
    (fuel : Nat) (hd : depthList vs < fuel) : encStruct P reg fuel pkt vs acc = some r :=
  enc_sound S P hconf reg pkt vs acc r hsafe hwire fuel hd

end FinProtoc.Props
