import FinProtoc.Props.C02
/-!
# C05 — match fields dispatch exactly as the DSL table says

* `enc_payload`: the declared (hence, by C01, every accepted emitted) encoder writes the payload
  the caller supplied, whatever the key member says.
* `dispatch_hit` / `dispatch_miss_spec`: the declared decoder instantiates exactly the packet the
  first matching pair names, and fails when no pair matches.
* `dec_sound` (C02) carries the hit case to every accepted emitted decoder; `emitted_dispatch_miss`
  is the miss case for the emitted dispatch step itself: a key outside the table is a reported
  failure, never another packet and never a skipped payload.
-/
namespace FinProtoc.Props
open FinProtoc FinProtoc.IR FinProtoc.Conforms FinProtoc.Wire

theorem enc_payload (S : Schema) (reg : Registry) (cf : List Field) (cv : List Val) (key : String)
    (pairs : List (Key × String)) (pkt : String) (vs : List Val) (acc : Bytes) :
    encVal S reg cf cv (.matchOn key pairs) (.dyn pkt vs) acc = Wire.enc S reg pkt vs acc :=
  Proofs.wire_match

theorem dispatch_hit (S : Schema) (call : Wire.DCall) (all : List Field) (env : List (String × Val)) (f : Field)
    (key : String) (pairs : List (Key × String)) (hk : f.kind = .matchOn key pairs) (hrep : f.rep = false)
    (kv : Val) (henv : env.lookup key = some kv) (kw : Option Nat) (hkw : keyWidthOf all key = some kw)
    (k : Key) (q : String) (hfind : (pairs.find? fun e => keyMatches kw e.1 kv) = some (k, q))
    (bs : Bytes) (vs : List Val) (r : Bytes) (hcall : call q bs = some (vs, r)) :
    decField S call all env f bs = some (.dyn q vs, r) := by
  simp [decField, hrep, hk, henv, hkw, hfind, hcall]

theorem dispatch_miss_spec (S : Schema) (call : Wire.DCall) (all : List Field) (env : List (String × Val)) (f : Field)
    (key : String) (pairs : List (Key × String)) (hk : f.kind = .matchOn key pairs) (hrep : f.rep = false)
    (kv : Val) (henv : env.lookup key = some kv) (kw : Option Nat) (hkw : keyWidthOf all key = some kw)
    (hmiss : ∀ e ∈ pairs, keyMatches kw e.1 kv = false) (bs : Bytes) :
    decField S call all env f bs = none := by
  have : (pairs.find? fun e => keyMatches kw e.1 kv) = none := by
    apply List.find?_eq_none.mpr; intro e he; simp [hmiss e he]
  simp [decField, hrep, hk, henv, hkw, this]

theorem emitted_dispatch_miss (P : Prog) (icall : Wire.DCall) (kw : Option Nat) (pairs : List (Key × String)) (t : Table)
    (htab : tableOk kw pairs t = true) (tbl : String) (ht : P.table tbl = some t)
    (env : DEnv) (k i : Nat) (kv : Val) (hk : env.lookup k = some kv)
    (hmiss : ∀ e ∈ pairs, keyMatches kw e.1 kv = false) (bs : Bytes) :
    stepD P icall (.dispatch k tbl i) (env, bs) = none :=
  Proofs.dispatch_miss htab ht hk hmiss bs

/-- non-vacuity: key 2 is not in the table of the C02 example: the emitted decoder fails -/
example : (decStruct exPD 3 "Msg" [2, 0, 0, 0, 0, 0, 7, 0, 0, 0]).isNone = true := by decide

end FinProtoc.Props
