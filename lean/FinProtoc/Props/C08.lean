import FinProtoc.SpecOf
import FinProtoc.Visit
import FinProtoc.Generated.Facts
import FinProtoc.Dsl.Parser
import FinProtoc.Proofs.VisitRefine
import FinProtoc.Proofs.VisitRefine2
/-!
# C08 — generated code depends on meaning, not spelling

What "mean the same" is, formally: the rewrites listed by the property leave `specOf` (the declarative
reading of a DSL) unchanged.  Proved here, for every parameter of each rewrite:

* type aliases collapse (`alias_scalar`, over the whole alias table); `string` and `char[]` are one type;
* `zchar[n]` is `char[n]` with explicit NUL right padding; omitted padding is the configured padding;
* inline and prefixed placement of `@lengthOf` / `@calculatedFrom` give the same field;
* explicitly written default options give the default configuration;
* a key list means its expanded pairs;
* a MetaData-typed field has the entry's type;

The check applies every rewrite at random subsets of sites to every program of the run, compiles both
spellings with all six REAL generators and byte-compares the outputs; and it checks attribute locality
(a padding attribute on one MetaData-typed field must not leak to its siblings — a genuine defect of the
pinned tree, repaired by a `fix:` commit).  Lifting "same specOf ⇒ same bytes" to the generators needs
generator models and is staged (DESIGN §8 C08): partial.
-/
namespace FinProtoc.Props
open FinProtoc FinProtoc.Dsl

def aliasTable : List (String × String) :=
  [("u8", "uint8"), ("u16", "uint16"), ("u32", "uint32"), ("u64", "uint64"), ("i8", "int8"), ("i16", "int16"),
   ("i32", "int32"), ("i64", "int64"), ("f32", "float32"), ("f64", "float64")]

theorem alias_scalar : ∀ p ∈ aliasTable, Scalar.ofName? p.1 = Scalar.ofName? p.2 ∧ (Scalar.ofName? p.1).isSome = true := by decide

/-- `string` and `char[]` are the same type -/
theorem dyn_spellings (a b : Tok) : dtyOf (.dyn a) = dtyOf (.dyn b) := rfl

/-- `zchar[n]` ≡ `char[n]` with `@rightPad('\x00')` -/
theorem zchar_is_nul_right_pad (cfg : Config) (n : Nat) :
    kindOfDTy cfg none (.fixed n true) = kindOfDTy cfg (some { ch := 0, left := false }) (.fixed n false) := rfl

/-- no padding attribute ≡ the configured padding written out -/
theorem omitted_pad_is_configured (cfg : Config) (n : Nat) :
    kindOfDTy cfg none (.fixed n false) = kindOfDTy cfg (some cfg.pad) (.fixed n false) := rfl

theorem padchar_spellings : padCharByte "'\\x00'" = some 0 ∧ padCharByte "' '" = some 32 ∧ padCharByte "'0'" = some 48 := by decide

/-- explicit default options ≡ none -/
theorem default_options :
    configOf [("LittleEndian", "false"), ("StringPrefixLenType", "u16"), ("ArrayPrefixLenType", "u16"),
              ("FixedStringPadFromLeft", "false"), ("FixedStringPadChar", "' '")] = configOf [] := by decide

theorem default_option_each :
    configOf [("LittleEndian", "false")] = configOf [] ∧ configOf [("StringPrefixLenType", "u16")] = configOf [] ∧
    configOf [("ArrayPrefixLenType", "u16")] = configOf [] ∧ configOf [("FixedStringPadFromLeft", "false")] = configOf [] ∧
    configOf [("FixedStringPadChar", "' '")] = configOf [] := by decide

/-- inline `type name @lengthOf(t)` ≡ prefixed `@lengthOf(t) type name` (same for `@calculatedFrom`) -/
theorem length_placement (cfg : Config) (metas : List (String × DTy)) (t : Tok) (s : Scalar) (hs : scalarOfTok t = some s)
    (name from_ comma kw rp : Tok) :
    (fieldOf cfg metas [] (.len { ty := some (.basic t), name, attr := { kw, from_, rp }, doc := none, comma })).map (·.1) =
    (fieldOf cfg metas [.len { kw, from_, rp }] (.metaF none { ty := .basic t, name, doc := none, comma })).map (·.1) := by
  simp [fieldOf, scalarFor, dtyOf, hs, kindOfDTy, lenAttrOf, calcAttrOf, padOfAttrs]

theorem checksum_placement (cfg : Config) (metas : List (String × DTy)) (t : Tok) (s : Scalar) (hs : scalarOfTok t = some s)
    (name from_ comma kw rp : Tok) :
    (fieldOf cfg metas [] (.cks { ty := some (.basic t), name, attr := { kw, from_, rp }, doc := none, comma })).map (·.1) =
    (fieldOf cfg metas [.calc { kw, from_, rp }] (.metaF none { ty := .basic t, name, doc := none, comma })).map (·.1) := by
  simp [fieldOf, scalarFor, dtyOf, hs, kindOfDTy, lenAttrOf, calcAttrOf, padOfAttrs]

/-- doc strings do not take part in the meaning -/
theorem doc_irrelevant (cfg : Config) (metas : List (String × DTy)) (attrs : List Attr) (rep : Option Tok) (ty : Ty)
    (name comma : Tok) (d d' : Option Tok) :
    fieldOf cfg metas attrs (.metaF rep { ty, name, doc := d, comma }) = fieldOf cfg metas attrs (.metaF rep { ty, name, doc := d', comma }) := by
  simp [fieldOf]

theorem flatten_singletons {α β} (g : α → β) (ks : List α) : (ks.map fun k => [g k]).flatten = ks.map g := by
  induction ks with
  | nil => rfl
  | cons k ks ih => simp [ih]

/-- a key list means its expanded pairs (stated for the pair in isolation; `pairsOf` concatenates per pair) -/
theorem keylist_expands (d : MatchDecl) (lb f rb colon target : Tok) (rest : List (Tok × Tok)) (comma : Option Tok) :
    pairsOf { d with pairs := [{ key := .list lb f rest rb, colon, target, comma }] } =
    pairsOf { d with pairs := (f :: rest.map (·.2)).map (fun k => { key := .single k, colon, target, comma }) } := by
  simp only [pairsOf, List.map_cons, List.map_nil, List.flatten_cons, List.flatten_nil, List.append_nil, List.map_map]
  have := flatten_singletons (fun k => (keyOfTok k, target.text)) (rest.map (·.2))
  simp only [List.map_map] at this
  simp only [List.singleton_append]
  congr 1
  exact this.symm

theorem pairsOf_append (d : MatchDecl) (xs ys : List MatchPair) :
    pairsOf { d with pairs := xs ++ ys } = pairsOf { d with pairs := xs } ++ pairsOf { d with pairs := ys } := by
  simp [pairsOf]

/-- a MetaData-typed field has the entry's type: same field as writing the type out -/
theorem metadata_typed_field (cfg : Config) (metas : List (String × DTy)) (attrs : List Attr) (rep : Option Tok)
    (ft fname comma : Tok) (ty : Ty) (t : DTy) (hm : metas.lookup ft.text = some t) (hty : dtyOf ty = some t) :
    fieldOf cfg metas attrs (.obj rep ft (some fname) none comma) =
      fieldOf cfg metas attrs (.metaF rep { ty, name := fname, doc := none, comma }) := by
  simp [fieldOf, hm, hty]

/-! ## The visitor's state means the schema of the declarative reading (refinement)

`specOf` is the declarative reading of a file; `Visit.run` is the statement-by-statement model of the Go visitor (tied to the
real code by the differential `model` op).  `Visit.schemaOf` (`Proofs/VisitRefine.lean`) reads a `Schema` off the visitor's
store the way the generators read it: `NewConfiguration` of the stored options, one packet per registered packet, one field
per model field, the kind off the attribute cell (`getBasicType` of the stored spelling, the field's pad cell or else the
configured pad).  The theorems below say that the two agree on the flat fragment `WFFlat` (typed scalar fields of every
spelling, `char[n]` / `zchar[n]` with and without padding attributes, `string` / `char[]`, MetaData-typed fields, checksum
fields, `repeat`, every option), under the side conditions `Visit.Agree`:

* lexical ones, true of every tree the parser produces (a basic-type token is one of the 21 spellings of the grammar, a pad
  character is `'0'`, `' '` or `'\x00'`), and "a checksum field has a scalar type";
* the value of `FixedStringPadChar` is not the raw-NUL spelling (only a quoted string holding a NUL character can be).

(Two discrepancies found while proving this are gone.  An option given as a quoted string (`LittleEndian = "true";`): the
visitor strips the quotes (`strings.Trim`), `specOf` did not and fell back to the default - `specOf.optionsOf` now strips them
too (`optValueText`).  A checksum field with a written type that is also named after a MetaData entry took the entry's type
in the visitor and the written one in `specOf` - the written type now wins in the Go code and in `Visit.metaTypeOf`.)

Not covered yet: length fields, packet-typed fields, match fields, inline objects, prefix `@calculatedFrom` / `@lengthOf`
attributes.  RefMetaData entries: `visit_refines_spec_refs_partial`. -/

open FinProtoc.Visit in
/-- **Refinement (flat fragment).**  If the file is a well-formed file of the flat fragment and satisfies the side conditions,
then the state in which the visitor model ends stands for exactly the schema the declarative reading gives the file. -/
theorem visit_refines_spec_partial (c : Cst) (h : WFFlat c) (ha : Agree c) (s : VState) (hr : Visit.run c = .ok s) :
    schemaOf s = specOf c :=
  (visit_refines_spec_flat c h ha s hr).1

open FinProtoc.Visit in
/-- … and there is such a schema: on this fragment the declarative reading is defined. -/
theorem spec_defined_partial (c : Cst) (h : WFFlat c) (ha : Agree c) : (specOf c).isSome = true := by
  obtain ⟨s, hs⟩ := Visit.run_ok c
  exact (visit_refines_spec_flat c h ha s hs).2

open FinProtoc.Visit in
/-- The same, without mentioning the run: the visitor returns (`visit_no_crash`), reports nothing (`wf_accepted_partial`),
and its state stands for `specOf c`. -/
theorem visit_refines_spec_total (c : Cst) (h : WFFlat c) (ha : Agree c) :
    ∃ s, Visit.run c = .ok s ∧ s.diags = [] ∧ schemaOf s = specOf c := by
  obtain ⟨s, hs⟩ := Visit.run_ok c
  exact ⟨s, hs, run_of_wlp (Q := fun s => s.diags = []) (visitCst_flat c h) hs, (visit_refines_spec_flat c h ha s hs).1⟩

open FinProtoc.Visit in
/-- **Spelling does not reach the visitor's meaning.**  Two files of the fragment with the same declarative reading - for
instance related by one of the rewrites above: an alias spelling (`alias_scalar`), `zchar[n]` for `@rightPad('\x00') char[n]`
(`zchar_is_nul_right_pad`), `char[]` for `string` (`dyn_spellings`), a default option written out (`default_options`) - leave
the visitor in states that stand for the same schema. -/
theorem same_spec_same_schema (c c' : Cst) (h : WFFlat c) (ha : Agree c) (h' : WFFlat c') (ha' : Agree c')
    (he : specOf c = specOf c') (s s' : VState) (hr : Visit.run c = .ok s) (hr' : Visit.run c' = .ok s') :
    schemaOf s = schemaOf s' := by
  rw [visit_refines_spec_partial c h ha s hr, visit_refines_spec_partial c' h' ha' s' hr', he]

open FinProtoc.Visit in
/-- **Refinement (flat fragment with MetaData reference entries, `WFRefs`).**  A reference entry `Type name` makes the visitor
register `name` with THE attribute object of `Type` (for a `zchar[n]` also its NUL pad cell); the declarative reading gives
`name` the declared type of `Type`: the two agree, under the same side conditions `Agree` as on the flat fragment. -/
theorem visit_refines_spec_refs_partial (c : Cst) (h : WFRefs c) (ha : Agree c) (s : VState) (hr : Visit.run c = .ok s) :
    schemaOf s = specOf c :=
  (visit_refines_spec_refs c h ha s hr).1

open FinProtoc.Visit in
/-- … and the declarative reading is defined there. -/
theorem spec_defined_refs_partial (c : Cst) (h : WFRefs c) (ha : Agree c) : (specOf c).isSome = true := by
  obtain ⟨s, hs⟩ := Visit.run_ok c
  exact (visit_refines_spec_refs c h ha s hs).2

open FinProtoc.Visit in
/-- spelling does not reach the visitor's meaning, on `WFRefs` -/
theorem same_spec_same_schema_refs (c c' : Cst) (h : WFRefs c) (ha : Agree c) (h' : WFRefs c') (ha' : Agree c')
    (he : specOf c = specOf c') (s s' : VState) (hr : Visit.run c = .ok s) (hr' : Visit.run c' = .ok s') :
    schemaOf s = schemaOf s' := by
  rw [visit_refines_spec_refs_partial c h ha s hr, visit_refines_spec_refs_partial c' h' ha' s' hr', he]

/-- the configuration half on its own, for every option list the visitor accepts without a diagnostic (every option a
documented one with an allowed value), the raw-NUL spelling of the pad character excepted: `NewConfiguration` of the stored
options is `configOf` of the same list -/
theorem config_refines_spec (os : List (String × String)) (h : Visit.OptsOK os)
    (hnul : os.lookup "FixedStringPadChar" ≠ some "'\x00'") :
    Visit.configOfM (Visit.configOfOptions os) = some (configOf os) :=
  Visit.config_refines os h hnul

/-! ### Non-vacuity: programs through lexer, parser, visitor model and `schemaOf`, evaluated by the kernel

The kernel cannot run the derived `DecidableEq Schema` (nested inductive) nor `String.splitOn`, so the two schemas are
compared through an injective-on-the-fragment first-order rendering `schemaSig` (configuration, then per packet its name and
`root`, then per field name, kind tag with type / algorithm, length, pad byte, pad side, `repeat`); `withLeft := false` leaves
the pad side of a field out (it is `splitOn`-computed for a padding attribute). -/

private def kindSig (withLeft : Bool) : FKind → String × Nat × Nat × Bool
  | .scalar t => ("scalar:" ++ t.name, 0, 0, false)
  | .fixed n p => ("fixed", n, p.ch.toNat, withLeft && p.left)
  | .dyn => ("dyn", 0, 0, false)
  | .obj q => ("obj:" ++ q, 0, 0, false)
  | .matchOn k _ => ("match:" ++ k, 0, 0, false)
  | .lengthOf t tgt => ("len:" ++ t.name ++ ":" ++ tgt, 0, 0, false)
  | .checksum t a => ("sum:" ++ t.name ++ ":" ++ a, 0, 0, false)

private def schemaSig (withLeft : Bool) (S : Schema) : List (String × String × Nat × Nat × Bool × Bool) :=
  ("cfg", S.cfg.strPfx.name ++ ":" ++ S.cfg.listPfx.name, S.cfg.pad.ch.toNat, 0, S.cfg.le, S.cfg.pad.left) ::
  S.packets.flatMap fun p => (p.name, "packet", 0, 0, p.root, false) ::
    p.fields.map fun f => let k := kindSig withLeft f.kind; (f.name, k.1, k.2.1, k.2.2.1, k.2.2.2, f.rep)

/-- parse, run the visitor model, read the schema off its state, compare with the declarative reading (which must exist);
no diagnostics -/
private def agree (withLeft : Bool) (t : String) : Option Bool :=
  (parseFull t).map fun c => match Visit.run c with
    | .ok s => ((Visit.schemaOf s).map (schemaSig withLeft) == (specOf c).map (schemaSig withLeft)) &&
        (specOf c).isSome && s.diags.isEmpty
    | .error _ => false

/-- options, MetaData (scalar, `zchar[n]`), a repeated MetaData-typed field, a `char[n]` with a padding attribute, a
MetaData-typed `zchar`, a dynamic string, a checksum field typed by a MetaData entry -/
private def refTextA : String :=
  "options {\n LittleEndian = true;\n FixedStringPadChar = '0';\n}\nMetaData M {\n u16 T,\n zchar[6] Z,\n u32 Crc,\n}\nroot packet P {\n repeat T ts,\n @leftPad(' ') char[6] S,\n Z,\n string Name,\n Crc @calculatedFrom(\"CRC32\"),\n}\n"

/-- the same without the attribute (the configured pad `'0'` from the left applies to `S`) … -/
private def refTextB : String :=
  "options {\n LittleEndian = true;\n FixedStringPadChar = '0';\n FixedStringPadFromLeft = true;\n}\nMetaData M {\n u16 T,\n zchar[6] Z,\n u32 Crc,\n}\nroot packet P {\n repeat T ts,\n char[6] S,\n Z,\n string Name,\n Crc @calculatedFrom(\"CRC32\"),\n}\n"

/-- … and respelled: aliases `uint16` / `uint32`, `char[]` for `string`, the default `ArrayPrefixLenType = u16` written out -/
private def refTextB2 : String :=
  "options {\n LittleEndian = true;\n FixedStringPadChar = '0';\n FixedStringPadFromLeft = true;\n ArrayPrefixLenType = u16;\n}\nMetaData M {\n uint16 T,\n zchar[6] Z,\n uint32 Crc,\n}\nroot packet P {\n repeat T ts,\n char[6] S,\n Z,\n char[] Name,\n Crc @calculatedFrom(\"CRC32\"),\n}\n"

example : agree false refTextA = some true := by decide +kernel
example : agree true refTextB = some true := by decide +kernel
example : agree true refTextB2 = some true := by decide +kernel

/-- the two spellings have the same declarative reading (hence, by the two examples above, the visitor's states stand for
the same schema), and it is the expected one -/
example : ((((parseFull refTextB).bind fun c => (specOf c).map (schemaSig true)) ==
      ((parseFull refTextB2).bind fun c => (specOf c).map (schemaSig true))) &&
    (((parseFull refTextB).bind fun c => (specOf c).map (schemaSig true)) ==
      some [("cfg", "u16:u16", 48, 0, true, true), ("P", "packet", 0, 0, true, false),
            ("ts", "scalar:u16", 0, 0, false, true), ("S", "fixed", 6, 48, true, false), ("Z", "fixed", 6, 0, false, false),
            ("Name", "dyn", 0, 0, false, false), ("Crc", "sum:u32:\"CRC32\"", 0, 0, false, false)])) = true := by
  decide +kernel

/-! ### The two former discrepancies, now agreed on (kernel-evaluated; accepted without a diagnostic) -/

/-- a quoted option value: the visitor (like `VisitPacket`, `strings.Trim(value, "\"")`) and `specOf` both read little-endian -/
example : ((parseFull "options {\n LittleEndian = \"true\";\n}\npacket P {\n u16 a,\n}\n").map fun c =>
    (match Visit.run c with | .ok s => (s.diags.isEmpty, (Visit.schemaOf s).map (·.cfg.le)) | .error _ => (false, none),
     (specOf c).map (·.cfg.le))) = some ((true, some true), some true) := by decide +kernel

/-- the same for a quoted prefix type and a quoted pad character -/
example : agree true "options {\n StringPrefixLenType = \"u8\";\n FixedStringPadChar = \"'0'\";\n}\npacket P {\n string a,\n char[3] b,\n}\n" =
    some true := by decide +kernel

/-- a quoted option value is the unquoted one, in the declarative reading itself -/
theorem quoted_option_value (name eq t : Tok) (semi : Option Tok) (h : t.kind = .string) :
    optValueText { name, eq, value := .tok t, semi } = trimDQuotes t.text := by
  simp [optValueText, h]

/-- a checksum field with a written type named after a MetaData entry has
the written type in both readings -/
example : agree true "MetaData M {\n u32 Sum,\n}\npacket P {\n u16 Sum @calculatedFrom(\"crc\"),\n}\n" = some true := by
  decide +kernel

/-! ### Reference entries (`WFRefs`), and what stands in the way of `WFCalc`

NOT extended to `WFCalc` (prefix `@calculatedFrom(..)` attributes): there the two readings DIFFER on three kinds of input, all
accepted by the visitor without a diagnostic (kernel-evaluated below):
(a) on a `string` / `char[]` field the visitor makes a checksum attribute of type `"string"` (no schema), `specOf` ignores the
    attribute (a plain dynamic string);
(b) on a checksum field that also has the inline attribute, the visitor keeps the PREFIX algorithm (the prefix attribute is
    applied after the declaration), `specOf` the inline one;
(c) on a field of a MetaData `char[n]` type the visitor again makes a checksum of type `"string"`, `specOf` keeps `char[n]`.
On scalar fields (typed, or of a scalar MetaData type, one or several prefix attributes) they agree. -/

/-- reference entries, also to a `zchar[n]` entry and through another reference; a repeated field and a checksum field typed
by reference entries -/
example : agree true "MetaData M {\n zchar[4] Z,\n u16 T,\n Z Z2,\n T Sum,\n Z2 Z3,\n}\npacket P {\n Z2,\n repeat T ts,\n Z3 z,\n Sum @calculatedFrom(\"x\"),\n}\n" =
    some true := by decide +kernel

/-- prefix `@calculatedFrom` on scalar fields: agreed on -/
example : agree true "MetaData M {\n u32 C,\n}\npacket P {\n @calculatedFrom(\"A\") C,\n @calculatedFrom(\"A\") @calculatedFrom(\"B\") uint16 y,\n}\n" =
    some true := by decide +kernel

/-- (a), (b), (c): not agreed on -/
example : agree true "packet P {\n @calculatedFrom(\"A\") string s,\n}\n" = some false ∧
    agree true "packet P {\n @calculatedFrom(\"A\") u16 x @calculatedFrom(\"B\"),\n}\n" = some false ∧
    agree true "MetaData M {\n char[4] C,\n}\npacket P {\n @calculatedFrom(\"A\") C,\n}\n" = some false := by decide +kernel

/-! ## T1: alias table and option defaults of the models are those of `model.go` as it stands now

`Generated.aliasTable` is every `case "a", "b": return "c"` of `getBasicType`, `Generated.aliasSubject` what the switch is on,
`Generated.configDefaults` the constant fields of the defaults literal of `NewConfiguration` — rewritten from the source by
`tools/facts` on every run of this check. -/

/-- the visitor model's normalisation table is the switch of `getBasicType` … -/
theorem alias_table_tied : ∀ kv ∈ Generated.aliasTable, Visit.basicTypeCanon kv.1 = some kv.2 := by decide

/-- … taken on the lower-cased spelling, as the model does (`getBasicType t = (basicTypeCanon t.toLower).getD t`) -/
theorem alias_subject_tied : Generated.aliasSubject = "strings.ToLower($0)" := by decide

theorem getBasicType_def (t : String) : Visit.getBasicType t = (Visit.basicTypeCanon t.toLower).getD t := rfl

/-- every spelling the code normalises means the scalar type of its canonical name in the wire specification too -/
theorem alias_table_spec : ∀ kv ∈ Generated.aliasTable,
    Scalar.ofName? kv.1 = Scalar.ofName? kv.2 ∧ (Scalar.ofName? kv.1).isSome = true := by decide

/-- the defaults of `NewConfiguration` are the defaults of the model's `configOfOptions` -/
theorem config_defaults_tied :
    Generated.configDefaults =
      (let c := Visit.configOfOptions []
       [("GoModule", c.gomod), ("GoPackage", c.gopkg), ("JavaPackage", c.java), ("ListLenPrefixLenType", c.list), ("LittleEndian", toString c.le),
        ("Padding.PadChar", c.pad.ch), ("Padding.PadLeft", toString c.pad.left), ("StringLenPrefixLenType", c.str)]) := by decide

end FinProtoc.Props
