import FinProtoc.SpecOf
import FinProtoc.Visit
import FinProtoc.Generated.Facts
/-!
# C08 — generated code depends on meaning, not spelling

What "mean the same" is, formally: the rewrites listed by the property leave `specOf` (the declarative
reading of a DSL) unchanged.  Proved here, for every parameter of each rewrite:

* type aliases collapse (`alias_scalar`, over the whole alias table); `string` and `char[]` are one type;
* `zchar[n]` is `char[n]` with explicit NUL right padding; omitted padding is the configured padding;
* inline and prefixed placement of `@lengthOf` / `@calculatedFrom` give the same field;
* explicitly written default options give the default configuration;
* a key list means its expanded pairs;
* a MetaData-typed field has the entry's type;

The check applies every rewrite at random subsets of sites to every program of the run, compiles both
spellings with all six REAL generators and byte-compares the outputs; and it checks attribute locality
(a padding attribute on one MetaData-typed field must not leak to its siblings — a genuine defect of the
pinned tree, repaired by a `fix:` commit).  Lifting "same specOf ⇒ same bytes" to the generators needs
generator models and is staged (DESIGN §8 C08): partial.
-/
namespace FinProtoc.Props
open FinProtoc FinProtoc.Dsl

def aliasTable : List (String × String) :=
  [("u8", "uint8"), ("u16", "uint16"), ("u32", "uint32"), ("u64", "uint64"), ("i8", "int8"), ("i16", "int16"),
   ("i32", "int32"), ("i64", "int64"), ("f32", "float32"), ("f64", "float64")]

theorem alias_scalar : ∀ p ∈ aliasTable, Scalar.ofName? p.1 = Scalar.ofName? p.2 ∧ (Scalar.ofName? p.1).isSome = true := by decide

/-- `string` and `char[]` are the same type -/
theorem dyn_spellings (a b : Tok) : dtyOf (.dyn a) = dtyOf (.dyn b) := rfl

/-- `zchar[n]` ≡ `char[n]` with `@rightPad('\x00')` -/
theorem zchar_is_nul_right_pad (cfg : Config) (n : Nat) :
    kindOfDTy cfg none (.fixed n true) = kindOfDTy cfg (some { ch := 0, left := false }) (.fixed n false) := rfl

/-- no padding attribute ≡ the configured padding written out -/
theorem omitted_pad_is_configured (cfg : Config) (n : Nat) :
    kindOfDTy cfg none (.fixed n false) = kindOfDTy cfg (some cfg.pad) (.fixed n false) := rfl

theorem padchar_spellings : padCharByte "'\\x00'" = some 0 ∧ padCharByte "' '" = some 32 ∧ padCharByte "'0'" = some 48 := by decide

/-- explicit default options ≡ none -/
theorem default_options :
    configOf [("LittleEndian", "false"), ("StringPrefixLenType", "u16"), ("ArrayPrefixLenType", "u16"),
              ("FixedStringPadFromLeft", "false"), ("FixedStringPadChar", "' '")] = configOf [] := by decide

theorem default_option_each :
    configOf [("LittleEndian", "false")] = configOf [] ∧ configOf [("StringPrefixLenType", "u16")] = configOf [] ∧
    configOf [("ArrayPrefixLenType", "u16")] = configOf [] ∧ configOf [("FixedStringPadFromLeft", "false")] = configOf [] ∧
    configOf [("FixedStringPadChar", "' '")] = configOf [] := by decide

/-- inline `type name @lengthOf(t)` ≡ prefixed `@lengthOf(t) type name` (same for `@calculatedFrom`) -/
theorem length_placement (cfg : Config) (metas : List (String × DTy)) (t : Tok) (s : Scalar) (hs : scalarOfTok t = some s)
    (name from_ comma kw rp : Tok) :
    (fieldOf cfg metas [] (.len { ty := some (.basic t), name, attr := { kw, from_, rp }, doc := none, comma })).map (·.1) =
    (fieldOf cfg metas [.len { kw, from_, rp }] (.metaF none { ty := .basic t, name, doc := none, comma })).map (·.1) := by
  simp [fieldOf, scalarFor, dtyOf, hs, kindOfDTy, lenAttrOf, calcAttrOf, padOfAttrs]

theorem checksum_placement (cfg : Config) (metas : List (String × DTy)) (t : Tok) (s : Scalar) (hs : scalarOfTok t = some s)
    (name from_ comma kw rp : Tok) :
    (fieldOf cfg metas [] (.cks { ty := some (.basic t), name, attr := { kw, from_, rp }, doc := none, comma })).map (·.1) =
    (fieldOf cfg metas [.calc { kw, from_, rp }] (.metaF none { ty := .basic t, name, doc := none, comma })).map (·.1) := by
  simp [fieldOf, scalarFor, dtyOf, hs, kindOfDTy, lenAttrOf, calcAttrOf, padOfAttrs]

/-- doc strings do not take part in the meaning -/
theorem doc_irrelevant (cfg : Config) (metas : List (String × DTy)) (attrs : List Attr) (rep : Option Tok) (ty : Ty)
    (name comma : Tok) (d d' : Option Tok) :
    fieldOf cfg metas attrs (.metaF rep { ty, name, doc := d, comma }) = fieldOf cfg metas attrs (.metaF rep { ty, name, doc := d', comma }) := by
  simp [fieldOf]

theorem flatten_singletons {α β} (g : α → β) (ks : List α) : (ks.map fun k => [g k]).flatten = ks.map g := by
  induction ks with
  | nil => rfl
  | cons k ks ih => simp [ih]

/-- a key list means its expanded pairs (stated for the pair in isolation; `pairsOf` concatenates per pair) -/
theorem keylist_expands (d : MatchDecl) (lb f rb colon target : Tok) (rest : List (Tok × Tok)) (comma : Option Tok) :
    pairsOf { d with pairs := [{ key := .list lb f rest rb, colon, target, comma }] } =
    pairsOf { d with pairs := (f :: rest.map (·.2)).map (fun k => { key := .single k, colon, target, comma }) } := by
  simp only [pairsOf, List.map_cons, List.map_nil, List.flatten_cons, List.flatten_nil, List.append_nil, List.map_map]
  have := flatten_singletons (fun k => (keyOfTok k, target.text)) (rest.map (·.2))
  simp only [List.map_map] at this
  simp only [List.singleton_append]
  congr 1
  exact this.symm

theorem pairsOf_append (d : MatchDecl) (xs ys : List MatchPair) :
    pairsOf { d with pairs := xs ++ ys } = pairsOf { d with pairs := xs } ++ pairsOf { d with pairs := ys } := by
  simp [pairsOf]

/-- a MetaData-typed field has the entry's type: same field as writing the type out -/
theorem metadata_typed_field (cfg : Config) (metas : List (String × DTy)) (attrs : List Attr) (rep : Option Tok)
    (ft fname comma : Tok) (ty : Ty) (t : DTy) (hm : metas.lookup ft.text = some t) (hty : dtyOf ty = some t) :
    fieldOf cfg metas attrs (.obj rep ft (some fname) none comma) =
      fieldOf cfg metas attrs (.metaF rep { ty, name := fname, doc := none, comma }) := by
  simp [fieldOf, hm, hty]

/-! ## T1: alias table and option defaults of the models are those of `model.go` as it stands now

`Generated.aliasTable` is every `case "a", "b": return "c"` of `getBasicType`, `Generated.aliasSubject` what the switch is on,
`Generated.configDefaults` the constant fields of the defaults literal of `NewConfiguration` — rewritten from the source by
`tools/facts` on every run of this check. -/

/-- the visitor model's normalisation table is the switch of `getBasicType` … -/
theorem alias_table_tied : ∀ kv ∈ Generated.aliasTable, Visit.basicTypeCanon kv.1 = some kv.2 := by decide

/-- … taken on the lower-cased spelling, as the model does (`getBasicType t = (basicTypeCanon t.toLower).getD t`) -/
theorem alias_subject_tied : Generated.aliasSubject = "strings.ToLower($0)" := by decide

theorem getBasicType_def (t : String) : Visit.getBasicType t = (Visit.basicTypeCanon t.toLower).getD t := rfl

/-- every spelling the code normalises means the scalar type of its canonical name in the wire specification too -/
theorem alias_table_spec : ∀ kv ∈ Generated.aliasTable,
    Scalar.ofName? kv.1 = Scalar.ofName? kv.2 ∧ (Scalar.ofName? kv.1).isSome = true := by decide

/-- the defaults of `NewConfiguration` are the defaults of the model's `configOfOptions` -/
theorem config_defaults_tied :
    Generated.configDefaults =
      (let c := Visit.configOfOptions []
       [("GoModule", c.gomod), ("GoPackage", c.gopkg), ("JavaPackage", c.java), ("ListLenPrefixLenType", c.list), ("LittleEndian", toString c.le),
        ("Padding.PadChar", c.pad.ch), ("Padding.PadLeft", toString c.pad.left), ("StringLenPrefixLenType", c.str)]) := by decide

end FinProtoc.Props
