import FinProtoc.Dsl.Cst
import FinProtoc.Dsl.Lexer
import FinProtoc.Dsl.Parser
/-!
# Model of the formatter (`packet_dsl_formattor.go`)

`Fmt.format : String → Result` mirrors `FormatPacketDsl`: parse, on a reported syntax error
return the input unchanged with an error, otherwise print the tree rule by rule with the two
comment look-ups (`getHiddenLeft`, `getHiddenRightAtSameLine`) and their seen-set, then
`strings.TrimSpace`.  Comments are kept per *gap* between visible tokens (`TokStream.gaps`).
Go panics are explicit `throw`s.

Layout constants (`indent`, `wrap`) are parameters of the printer: the theorems hold for every
value, the correspondence runs use the values extracted from the Go source.
-/
namespace FinProtoc.Fmt
open FinProtoc.Dsl

/-- Go panics of the formatter.  Both sites of the pinned tree (`ctx.GetStop()` nil on an empty tree,
`ctx.PADDING_CHAR()` nil for `@leftPad()`) were repaired by `fix:` commits; the model keeps the type so
that a new panic site has somewhere to go. -/
inductive Crash
  | other (site : String)
  deriving Repr, DecidableEq, Inhabited

structure Layout where
  indent : Nat := 4
  wrap : Nat := 5
  deriving Repr, Inhabited

structure St where
  seen : List Nat := []

abbrev F := StateT St (Except Crash)

def gapAt (gaps : List (List Comment)) (i : Nat) : List Comment := gaps.getD i []

/-- `getHiddenLeft`: every not-yet-printed comment of the gap before `t`, each followed by a newline -/
def hiddenLeft (gaps : List (List Comment)) (t : Tok) : F String := do
  let st ← get
  let cs := (gapAt gaps t.idx).filter fun c => !st.seen.contains c.id
  set { st with seen := st.seen ++ cs.map Comment.id }
  pure (String.join (cs.map fun c => c.text ++ "\n"))

/-- `getHiddenRightAtSameLine`: the not-yet-printed comments of the gap after `t` that start on `t`'s line -/
def hiddenRight (gaps : List (List Comment)) (t : Tok) : F String := do
  let st ← get
  let cs := (gapAt gaps (t.idx + 1)).filter fun c => !st.seen.contains c.id && c.line = t.line
  set { st with seen := st.seen ++ cs.map Comment.id }
  pure (String.join (cs.map (·.text)))

/-- `AddIndent(s, n)` -/
def addIndent (n : Nat) (s : String) : String :=
  let ind := String.ofList (List.replicate n ' ')
  ind ++ s.replace "\n" ("\n" ++ ind)

def addIndentLn (n : Nat) (s : String) : String := addIndent n s ++ "\n"

def trimRightNl (s : String) : String := String.ofList ((s.toList.reverse.dropWhile (· = '\n')).reverse)

/-- Go's `unicode.IsSpace` on the characters that can occur around a formatted text -/
def isGoSpace (c : Char) : Bool :=
  c = ' ' || c = '\t' || c = '\n' || c = '\r' || c.toNat = 0x0B || c.toNat = 0x0C || c.toNat = 0x85 || c.toNat = 0xA0 ||
  c.toNat = 0x1680 || (0x2000 ≤ c.toNat && c.toNat ≤ 0x200A) || c.toNat = 0x2028 || c.toNat = 0x2029 || c.toNat = 0x202F ||
  c.toNat = 0x205F || c.toNat = 0x3000

def trimSpace (s : String) : String :=
  String.ofList (((s.toList.dropWhile isGoSpace).reverse.dropWhile isGoSpace).reverse)

/-- `formatStringList(values, itemsPerLine)` -/
def formatStringList (L : Layout) (values : List String) : String :=
  if values.length ≤ L.wrap then "[" ++ ", ".intercalate values ++ "]"
  else
    let n := values.length
    let body := String.join ((values.zipIdx).map fun (v, idx) =>
      (if idx ≠ 0 && idx % L.wrap = 0 then "\n" else "") ++ v ++
      (if idx ≠ n - 1 then "," ++ (if (idx + 1) % L.wrap ≠ 0 then " " else "") else ""))
    "[\n" ++ addIndentLn L.indent body ++ "]"

def docSp : Option Tok → String
  | some t => " " ++ t.text
  | none => ""

def metaDeclText (d : MetaDecl) : String :=
  trimSpace (d.ty.text ++ " " ++ d.name.text ++ " " ++ (match d.doc with | some t => t.text | none => "")) ++ ","

def refMetaDeclText (d : RefMetaDecl) : String :=
  trimSpace (d.typ.text ++ " " ++ d.name.text ++ docSp d.doc) ++ ","

def keyItems : MatchKey → List Tok
  | .single t => [t]
  | .list _ f rest _ => f :: rest.map (·.2)

def matchDeclText (L : Layout) (gaps : List (List Comment)) (d : MatchDecl) : F String := do
  let body ← d.pairs.mapM fun p => do
    let lc := trimRightNl (← hiddenLeft gaps p.key.start)
    let key := match p.key with
      | .single t => t.text
      | .list _ _ _ _ =>
        let items := keyItems p.key
        formatStringList L (((items.filter (·.kind = .digits)) ++ (items.filter (·.kind = .string))).map (·.text))
    let rc := trimRightNl (← hiddenRight gaps p.stop)
    pure ((if lc ≠ "" then addIndentLn L.indent lc else "") ++
          addIndentLn L.indent (key ++ " : " ++ trimSpace p.target.text ++ ",") ++
          (if rc ≠ "" then addIndentLn L.indent rc else ""))
  pure ("match " ++ d.key.text ++ " as " ++ d.name.text ++ " {\n" ++ String.join body ++ "}")

mutual
/-- `VisitFieldDefinition` -/
def fieldDefText (L : Layout) (gaps : List (List Comment)) : FieldDef → F String
  | .obj rep ft fn doc comma => do
    let left ← hiddenLeft gaps (rep.getD ft)
    let right ← hiddenRight gaps comma
    pure (left ++ (if rep.isSome then "repeat " else "") ++ ft.text ++ (match fn with | some n => " " ++ n.text | none => "") ++ docSp doc ++ "," ++ right)
  | .iner rep name _ fields _ comma => do
    let left ← hiddenLeft gaps (rep.getD name)
    let inner ← fieldDefsText L gaps fields
    let right ← hiddenRight gaps comma
    pure (left ++ (if rep.isSome then "repeat " else "") ++ name.text ++ " " ++ "{\n" ++ inner ++ "}," ++ right)
  | .len d => do
    let left ← hiddenLeft gaps (FieldDef.len d).start
    let right ← hiddenRight gaps d.comma
    pure (left ++ (match d.ty with | some t => t.text ++ " " | none => "") ++ d.name.text ++ " @lengthOf(" ++ d.attr.from_.text ++ ")" ++ docSp d.doc ++ "," ++ right)
  | .cks d => do
    let left ← hiddenLeft gaps (FieldDef.cks d).start
    let right ← hiddenRight gaps d.comma
    pure (left ++ (match d.ty with | some t => t.text ++ " " | none => "") ++ d.name.text ++ " @calculatedFrom(" ++ d.attr.from_.text ++ ")" ++ docSp d.doc ++ "," ++ right)
  | .metaF rep d => do
    let left ← hiddenLeft gaps (rep.getD d.ty.start)
    let right ← hiddenRight gaps d.comma
    pure (left ++ (if rep.isSome then "repeat " else "") ++ metaDeclText d ++ right)
  | .match_ d comma => do
    let left ← hiddenLeft gaps d.kw
    let body ← matchDeclText L gaps d
    let right ← hiddenRight gaps comma
    pure (left ++ body ++ "," ++ right)
/-- the fields of an inline object, each indented and on its own line -/
def fieldDefsText (L : Layout) (gaps : List (List Comment)) : List FieldDef → F String
  | [] => pure ""
  | f :: fs => do
    let a ← fieldDefText L gaps f
    let b ← fieldDefsText L gaps fs
    pure (addIndentLn L.indent a ++ b)
end

def attrText : Attr → Except Crash String
  | .calc a => pure ("@calculatedFrom(" ++ a.from_.text ++ ")")
  | .len a => pure ("@lengthOf(" ++ a.from_.text ++ ")")
  | .pad kw _ ch _ =>
    match ch with
    | some c => pure (kw.text ++ "(" ++ c.text ++ ")")
    | none => pure (kw.text ++ "()")
  | .tag _ n _ => pure ("@tag(" ++ n.text ++ ")")

def fieldWAText (L : Layout) (gaps : List (List Comment)) (f : FieldWA) : F String := do
  let attrs ← f.attrs.mapM fun a => do
    let t ← (attrText a : Except Crash String)
    pure (t ++ "\n")
  let fd ← fieldDefText L gaps f.fd
  pure (String.join attrs ++ fd)

def packetDefText (L : Layout) (gaps : List (List Comment)) (p : PacketDef) : F String := do
  let left ← hiddenLeft gaps p.start
  let fields ← p.fields.mapM fun f => do pure (addIndentLn L.indent (← fieldWAText L gaps f))
  let right ← hiddenRight gaps p.rb
  pure (left ++ (if p.root.isSome then "root " else "") ++ "packet " ++ p.name.text ++ " {\n" ++ String.join fields ++ "}" ++ right)

def optDeclText (gaps : List (List Comment)) (d : OptDecl) : F String := do
  let left ← hiddenLeft gaps d.name
  let stop := match d.semi with | some s => s | none => (d.value.toks.getLast?.getD d.eq)
  let right ← hiddenRight gaps stop
  pure (left ++ d.name.text ++ " = " ++ d.value.text ++ (if d.semi.isSome then ";" else "") ++ right)

def optDefText (L : Layout) (gaps : List (List Comment)) (o : OptDef) : F String := do
  let left ← hiddenLeft gaps o.kw
  let decls ← o.decls.mapM fun d => do pure (addIndentLn L.indent (← optDeclText gaps d))
  let right ← hiddenRight gaps o.rb
  pure (left ++ "options {\n" ++ String.join decls ++ "}" ++ right)

def metaDefText (L : Layout) (m : MetaDef) : String :=
  "MetaData " ++ m.name.text ++ " {\n" ++
    String.join (m.entries.map fun e => addIndentLn L.indent (match e with | .decl d => metaDeclText d | .ref r => refMetaDeclText r)) ++ "}"

def topDefText (L : Layout) (gaps : List (List Comment)) : TopDef → F String
  | .packet p => packetDefText L gaps p
  | .metaD m => pure (metaDefText L m)
  | .opt o => optDefText L gaps o

/-- `getHiddenLeft(ctx.GetStart())`: the first token of the input, whatever it is (EOF when there is none) -/
def firstLeft (gaps : List (List Comment)) : Option Tok → F String
  | some t => hiddenLeft gaps t
  | none => pure ((gapAt gaps 0).foldl (fun s c => s ++ c.text ++ "\n") "")

/-- `VisitPacket` followed by `strings.TrimSpace` -/
def cstText (L : Layout) (gaps : List (List Comment)) (firstTok : Option Tok) (c : Cst) : F String := do
  let left ← firstLeft gaps firstTok
  match c.defs.getLast? with
  | none => pure left          -- `ctx.GetStop()` is nil: nothing after the leading comments
  | some last => do
    let parts ← c.defs.mapM (topDefText L gaps)
    let right ← hiddenRight gaps last.stop
    pure (left ++ "\n\n".intercalate parts ++ right)

inductive Result
  | ok (text : String)
  | syntaxError           -- the input is returned unchanged together with an error
  | panic (c : Crash)
  deriving Repr, DecidableEq, Inhabited

def formatWith (L : Layout) (s : String) : Result :=
  let ts := lex s
  match parseFull s with
  | none => .syntaxError
  | some cst =>
    match (cstText L ts.gaps ts.toks.head? cst).run {} with
    | .ok (t, _) => .ok (trimSpace t)
    | .error c => .panic c

def format (s : String) : Result := formatWith {} s

/-! ## Analysis used by the C09/C10 checks to name the cause of a loss (reporting only) -/

mutual
def objDocs : FieldDef → Nat
  | .obj _ _ _ doc _ => if doc.isSome then 1 else 0
  | .iner _ _ _ fields _ _ => objDocsList fields
  | _ => 0
def objDocsList : List FieldDef → Nat
  | [] => 0
  | f :: fs => objDocs f + objDocsList fs
end

def mixedKey (k : MatchKey) : Bool :=
  let items := keyItems k
  ((items.filter (·.kind = .digits)) ++ (items.filter (·.kind = .string))).map (·.idx) != items.map (·.idx)

mutual
def mixedLists : FieldDef → Nat
  | .match_ d _ => (d.pairs.filter fun p => mixedKey p.key).length
  | .iner _ _ _ fields _ _ => mixedListsList fields
  | _ => 0
def mixedListsList : List FieldDef → Nat
  | [] => 0
  | f :: fs => mixedLists f + mixedListsList fs
end

structure Info where
  result : Result
  leftover : Nat
  lexErrors : Nat
  objectDocs : Nat
  mixedLists : Nat
  multilineDocs : Nat
  lostNeverRead : Nat       -- comments in a gap no look-up ever reads
  lostOtherLine : Nat       -- comments in a gap that is only read by a same-line look-up, on another line
  comments : Nat
  deriving Repr

/-- token indices whose LEFT gap is read, and whose RIGHT gap (same line only) is read -/
def anchors (c : Cst) (first : Option Tok) : List Nat × List Nat :=
  let rec fdA : Nat → FieldDef → List Nat × List Nat
    | 0, _ => ([], [])
    | fuel + 1, fd =>
      let own : List Nat × List Nat := ([fd.start.idx], [fd.stop.idx])
      match fd with
      | .iner _ _ _ fields _ _ => fields.foldl (fun (l, r) f => let (a, b) := fdA fuel f; (l ++ a, r ++ b)) own
      | .match_ d _ => (own.1 ++ d.pairs.map (·.key.start.idx), own.2 ++ d.pairs.map (·.stop.idx))
      | _ => own
  let top := c.defs.foldl (fun (l, r) d =>
    match d with
    | .packet p =>
      let (a, b) := p.fields.foldl (fun (l, r) f => let (a, b) := fdA 64 f.fd; (l ++ a, r ++ b)) ([], [])
      (l ++ [p.start.idx] ++ a, r ++ [p.rb.idx] ++ b)
    | .opt o => (l ++ [o.kw.idx] ++ o.decls.map (·.name.idx),
                 r ++ [o.rb.idx] ++ o.decls.map fun d => (match d.semi with | some s => s.idx | none => (d.value.toks.getLast?.getD d.eq).idx))
    | .metaD _ => (l, r)) ([], [])
  -- `VisitPacket` reads the same-line right gap of the file's last token, whatever kind of definition it closes
  ((match first with | some t => [t.idx] | none => []) ++ top.1,
   top.2 ++ (match c.defs.getLast? with | some d => [d.stop.idx] | none => []))

def info (s : String) : Info :=
  let ts := lex s
  let res := format s
  match parseToks ts.toks with
  | none => { result := res, leftover := 0, lexErrors := lexErrors s, objectDocs := 0, mixedLists := 0, multilineDocs := 0,
              lostNeverRead := 0, lostOtherLine := 0, comments := (ts.gaps.map List.length).sum }
  | some (cst, rest) =>
    let (la, ra) := anchors cst ts.toks.head?
    let fds := (cst.defs.filterMap fun d => match d with | .packet p => some (p.fields.map (·.fd)) | _ => none).flatten
    let toks := ts.toks
    let lost : List (Nat × Nat) := (ts.gaps.zipIdx.map fun ((g : List Comment), (i : Nat)) =>
      -- gap i lies before token i and after token i-1
      let leftRead := la.contains i
      let rightTok := if i = 0 then none else toks[i - 1]?
      let rightRead := match rightTok with | some t => ra.contains t.idx | none => false
      if leftRead then (0, 0)
      else if rightRead then (0, (g.filter fun (c : Comment) => some c.line ≠ rightTok.map Tok.line).length)
      else (g.length, 0))
    { result := res, leftover := rest.length, lexErrors := lexErrors s,
      objectDocs := objDocsList fds, mixedLists := mixedListsList fds,
      multilineDocs := (toks.filter fun t => t.kind = .strLit && t.text.contains '\n').length,
      lostNeverRead := (lost.map (·.1)).sum, lostOtherLine := (lost.map (·.2)).sum,
      comments := (ts.gaps.map List.length).sum }

end FinProtoc.Fmt
