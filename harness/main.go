// Command verifharness is injected into the fin-protoc module with `go build -overlay`
// (as cmd/verifharness/main.go) so that it is always compiled against /repo's current
// working tree.  It speaks a JSON-lines protocol on stdin/stdout: one request object per
// line, one response object per line, in order.  Every op runs the REAL fin-protoc code
// in-process under recover(); stdout noise of the library (fmt.Println in the visitor) is
// redirected to /dev/null.
package main

import (
	"bufio"
	"encoding/json"
	"fmt"
	"os"
	"reflect"
	"runtime/debug"
	"sort"
	"strings"
	"syscall"

	"github.com/antlr4-go/antlr/v4"
	"github.com/iancoleman/strcase"
	gen "github.com/xinchentechnote/fin-protoc/internal/grammar"
	"github.com/xinchentechnote/fin-protoc/internal/model"
	"github.com/xinchentechnote/fin-protoc/internal/parser"
)

type req struct {
	Op    string   `json:"op"`
	ID    string   `json:"id"`
	Text  string   `json:"text"`
	Order []string `json:"order"`
	Fresh bool     `json:"fresh"`
	Times int      `json:"times"`
	Dump  bool     `json:"dump"`
	Names []string `json:"names"`
}

type M = map[string]interface{}

var out *bufio.Writer

func main() {
	// keep a private copy of stdout, then silence fd 1 for the library's prints
	fd, err := syscall.Dup(1)
	if err != nil {
		panic(err)
	}
	devnull, _ := os.OpenFile("/dev/null", os.O_WRONLY, 0)
	syscall.Dup2(int(devnull.Fd()), 1)
	os.Stdout = devnull
	out = bufio.NewWriterSize(os.NewFile(uintptr(fd), "out"), 1<<20)
	debug.SetMaxStack(256 << 20)

	in := bufio.NewReaderSize(os.Stdin, 1<<20)
	for {
		line, err := in.ReadBytes('\n')
		if len(line) > 0 {
			var r req
			if e := json.Unmarshal(line, &r); e != nil {
				emit(M{"error": "bad request: " + e.Error()})
			} else {
				// announce the op first so a fatal (unrecoverable) crash can be attributed
				emit(M{"begin": r.ID})
				res := handle(&r)
				res["id"] = r.ID
				emit(res)
			}
		}
		if err != nil {
			break
		}
	}
	out.Flush()
}

func emit(m M) {
	b, _ := json.Marshal(m)
	out.Write(b)
	out.WriteByte('\n')
	out.Flush()
}

func guard(f func() M) (res M) {
	defer func() {
		if r := recover(); r != nil {
			res = M{"panic": classify(r), "panic_msg": fmt.Sprint(r), "panic_at": panicSite()}
		}
	}()
	return f()
}

// panicSite names the innermost fin-protoc function on the panicking stack.
func panicSite() string {
	lines := strings.Split(string(debug.Stack()), "\n")
	seenPanic := false
	for _, l := range lines {
		if strings.HasPrefix(l, "panic(") {
			seenPanic = true
			continue
		}
		if seenPanic && strings.Contains(l, "fin-protoc/internal/") && !strings.HasPrefix(l, "\t") {
			fn := l[strings.LastIndex(l, "/")+1:]
			if i := strings.LastIndex(fn, "("); i > 0 {
				fn = fn[:i]
			}
			return fn
		}
	}
	return "?"
}

func classify(r interface{}) string {
	s := fmt.Sprint(r)
	switch {
	case strings.Contains(s, "nil pointer"):
		return "nil"
	case strings.Contains(s, "interface conversion"):
		return "assert"
	case strings.Contains(s, "index out of range"), strings.Contains(s, "slice bounds"):
		return "index"
	default:
		return "other"
	}
}

func handle(r *req) M {
	switch r.Op {
	case "tokens":
		return guard(func() M { return opTokens(r.Text) })
	case "tree":
		return guard(func() M { return opTree(r.Text) })
	case "format":
		return guard(func() M { return opFormat(r.Text) })
	case "model":
		return guard(func() M { return opModel(r.Text) })
	case "gen":
		return opGen(r)
	case "strcase":
		// the REAL case conversions the generators use, for the identifiers of one program
		out := M{}
		for _, n := range r.Names {
			out[n] = []string{strcase.ToSnake(n), strcase.ToCamel(n), strcase.ToLowerCamel(n)}
		}
		return M{"names": out}
	case "ping":
		return M{"pong": true}
	}
	return M{"error": "unknown op " + r.Op}
}

// ---------------------------------------------------------------- tokens / tree

func tokName(t int) string {
	if t == antlr.TokenEOF {
		return "EOF"
	}
	p := gen.PacketDslParserStaticData
	if t < len(p.SymbolicNames) && p.SymbolicNames[t] != "" {
		return p.SymbolicNames[t]
	}
	if t < len(p.LiteralNames) && p.LiteralNames[t] != "" {
		return p.LiteralNames[t]
	}
	return fmt.Sprintf("T%d", t)
}

func opTokens(text string) M {
	gen.PacketDslParserInit()
	input := antlr.NewInputStream(text)
	lexer := gen.NewPacketDslLexer(input)
	lexer.RemoveErrorListeners()
	cnt := &countListener{}
	lexer.AddErrorListener(cnt)
	stream := antlr.NewCommonTokenStream(lexer, antlr.TokenDefaultChannel)
	stream.Fill()
	var toks []interface{}
	for _, t := range stream.GetAllTokens() {
		if t.GetTokenType() == antlr.TokenEOF {
			continue
		}
		toks = append(toks, []interface{}{tokName(t.GetTokenType()), t.GetText(), t.GetLine(), t.GetColumn(), t.GetChannel()})
	}
	return M{"tokens": toks, "lexerrs": cnt.n}
}

type countListener struct {
	*antlr.DefaultErrorListener
	n int
}

func (c *countListener) SyntaxError(recognizer antlr.Recognizer, offendingSymbol interface{}, line, column int, msg string, e antlr.RecognitionException) {
	c.n++
}

func dumpTree(t antlr.Tree, sb *strings.Builder) {
	switch n := t.(type) {
	case antlr.ErrorNode:
		sb.WriteString("<error>")
	case antlr.TerminalNode:
		b, _ := json.Marshal(n.GetSymbol().GetText())
		sb.Write(b)
	case antlr.RuleNode:
		name := reflect.TypeOf(n).Elem().Name()
		name = strings.TrimSuffix(name, "Context")
		sb.WriteString("(" + name)
		for _, c := range n.GetChildren() {
			sb.WriteString(" ")
			dumpTree(c, sb)
		}
		sb.WriteString(")")
	default:
		sb.WriteString("<?>")
	}
}

func opTree(text string) M {
	p, stream, _ := parser.NewPacketDslParserByContent(text)
	tree, listener := parser.ParseAll(p)
	var sb strings.Builder
	dumpTree(tree, &sb)
	// how many default-channel tokens did the start rule leave unconsumed?
	stream.Fill()
	visible := 0
	for _, t := range stream.GetAllTokens() {
		if t.GetChannel() == antlr.TokenDefaultChannel && t.GetTokenType() != antlr.TokenEOF {
			visible++
		}
	}
	consumed := 0
	if tree.GetStop() != nil && len(tree.GetChildren()) > 0 {
		stop := tree.GetStop().GetTokenIndex()
		for _, t := range stream.GetAllTokens() {
			if t.GetChannel() == antlr.TokenDefaultChannel && t.GetTokenType() != antlr.TokenEOF && t.GetTokenIndex() <= stop {
				consumed++
			}
		}
	}
	return M{"errors": len(listener.Errors), "tree": sb.String(), "visible": visible, "consumed": consumed}
}

// ---------------------------------------------------------------- format

func opFormat(text string) M {
	s, err := parser.FormatPacketDsl(text)
	if err != nil {
		return M{"ok": false, "out": s}
	}
	return M{"ok": true, "out": s}
}

// ---------------------------------------------------------------- model

type dumper struct {
	attrIDs map[interface{}]int
	padIDs  map[*model.Padding]int
	pktIDs  map[*model.Packet]int
	pads    []M
}

func newDumper() *dumper {
	return &dumper{attrIDs: map[interface{}]int{}, padIDs: map[*model.Padding]int{}, pktIDs: map[*model.Packet]int{}}
}

func (d *dumper) pad(p *model.Padding) interface{} {
	if p == nil {
		return nil
	}
	id, ok := d.padIDs[p]
	if !ok {
		id = len(d.padIDs)
		d.padIDs[p] = id
	}
	return M{"id": id, "ch": p.PadChar, "left": p.PadLeft}
}

func (d *dumper) attr(a model.FieldAttribute, depth int) interface{} {
	if a == nil || (reflect.ValueOf(a).Kind() == reflect.Ptr && reflect.ValueOf(a).IsNil()) {
		return nil
	}
	if _, isDyn := a.(*model.DynamicStringFieldAttribute); isDyn {
		// zero-size object: Go gives all of them one address, identity means nothing
		return M{"k": "dyn"}
	}
	id, seen := d.attrIDs[a]
	if !seen {
		id = len(d.attrIDs)
		d.attrIDs[a] = id
	}
	m := M{"id": id}
	switch c := a.(type) {
	case *model.BasicFieldAttribute:
		m["k"] = "basic"
		m["type"] = c.Type
	case *model.LengthFieldAttribute:
		m["k"] = "length"
		m["type"] = c.LengthType
		if c.TragetField != nil {
			m["target"] = c.TragetField.Name
		} else {
			m["target"] = nil
		}
	case *model.LengthOfAttribute:
		m["k"] = "lengthOf"
		if c.LengthField != nil {
			m["field"] = c.LengthField.Name
		}
	case *model.CheckSumFieldAttribute:
		m["k"] = "checksum"
		m["type"] = c.Type
		m["algo"] = c.CheckSumType
	case *model.FixedStringFieldAttribute:
		m["k"] = "fixed"
		m["n"] = c.Length
		m["pad"] = d.pad(c.Padding)
	case *model.DynamicStringFieldAttribute:
		m["k"] = "dyn"
	case *model.ObjectFieldAttribute:
		m["k"] = "object"
		m["iner"] = c.IsIner
		m["packet"] = c.PacketName
		if c.RefPacket == nil {
			m["ref"] = nil
		} else if c.IsIner {
			if seen || depth > 50 {
				m["ref"] = "<seen>"
			} else {
				m["ref"] = d.packet(c.RefPacket, depth+1)
			}
		} else {
			m["ref"] = c.RefPacket.Name
		}
	case *model.MatchFieldAttribute:
		m["k"] = "match"
		if c.MatchKeyField != nil {
			m["key"] = c.MatchKeyField.Name
			m["keyResolved"] = c.MatchKeyField.Attr != nil
		} else {
			m["key"] = nil
		}
		m["pairs"] = pairs(c.MatchPairs)
	default:
		m["k"] = fmt.Sprintf("%T", a)
	}
	return m
}

func pairs(ps []model.MatchPair) []interface{} {
	r := []interface{}{}
	for _, p := range ps {
		r = append(r, []interface{}{p.Key, p.Value, p.Line, p.Column})
	}
	return r
}

func (d *dumper) field(f *model.Field, depth int) interface{} {
	if f == nil {
		return nil
	}
	return M{"name": f.Name, "repeat": f.IsRepeat, "doc": f.Doc, "tag": f.Tag, "line": f.Line, "col": f.Column,
		"attr": d.attr(f.Attr, depth), "lenAttr": d.attr(f.LenAttr, depth)}
}

func (d *dumper) packet(p *model.Packet, depth int) interface{} {
	fields := []interface{}{}
	for _, f := range p.Fields {
		fields = append(fields, d.field(f, depth))
	}
	var lf interface{}
	if p.LengthField != nil {
		lf = p.LengthField.Name
	}
	mf := M{}
	for k, v := range p.MatchFields {
		mf[k] = pairs(v)
	}
	fm := []string{}
	for k := range p.FieldMap {
		fm = append(fm, k)
	}
	sort.Strings(fm)
	return M{"name": p.Name, "root": p.IsRoot, "line": p.Line, "col": p.Column, "lengthField": lf,
		"fields": fields, "matchFields": mf, "fieldMap": fm}
}

func dumpModel(bm *model.BinaryModel) M {
	d := newDumper()
	pk := []interface{}{}
	for _, p := range bm.Packets {
		pk = append(pk, d.packet(p, 0))
	}
	md := []interface{}{}
	names := []string{}
	for k := range bm.MetaDataMap {
		names = append(names, k)
	}
	sort.Strings(names)
	for _, k := range names {
		m := bm.MetaDataMap[k]
		md = append(md, M{"name": m.Name, "attr": d.attr(m.Attr, 0), "desc": m.Description, "line": m.Line, "col": m.Column})
	}
	keys := []string{}
	for k := range bm.PacketsMap {
		keys = append(keys, k)
	}
	sort.Strings(keys)
	var root interface{}
	if bm.RootPacket != nil {
		root = bm.RootPacket.Name
	}
	var cfg interface{}
	if bm.Config != nil {
		c := bm.Config
		cfg = M{"list": c.ListLenPrefixLenType, "str": c.StringLenPrefixLenType, "java": c.JavaPackage, "gopkg": c.GoPackage,
			"gomod": c.GoModule, "le": c.LittleEndian, "pad": d.pad(c.Padding)}
	}
	diags := []interface{}{}
	for _, e := range bm.SyntaxErrors {
		diags = append(diags, []interface{}{e.Line, e.Column, e.Msg})
	}
	return M{"options": bm.Options, "config": cfg, "metadata": md, "packets": pk, "packetsMap": keys, "root": root, "diags": diags}
}

// parse runs the REAL parser.ParseFile on a scratch file: (model, 0) or (nil, n>0) on syntax errors.
func parse(text string) (*model.BinaryModel, int) {
	f, err := os.CreateTemp("", "fpv-*.dsl")
	if err != nil {
		panic(err)
	}
	name := f.Name()
	defer os.Remove(name)
	f.WriteString(text)
	f.Close()
	res, err := parser.ParseFile(name)
	if err != nil {
		return nil, 1
	}
	return res.(*model.BinaryModel), 0
}

func opModel(text string) M {
	bm, n := parse(text)
	if bm == nil {
		return M{"synerr": n}
	}
	return M{"synerr": 0, "model": dumpModel(bm)}
}

// ---------------------------------------------------------------- generators

func runGen(lang string, bm *model.BinaryModel) (files map[string][]byte, err error) {
	switch lang {
	case "lua":
		return parser.NewLuaWspGenerator(bm).Generate(bm)
	case "rust":
		return parser.NewRustGenerator(bm).Generate(bm)
	case "go":
		return parser.NewGoGenerator(bm).Generate(bm)
	case "java":
		return parser.NewJavaGenerator(bm).Generate(bm)
	case "python":
		return parser.NewPythonGenerator(bm).Generate(bm)
	case "cpp":
		return parser.NewCppGenerator(bm).Generate(bm)
	}
	return nil, fmt.Errorf("unknown generator %s", lang)
}

// opGen runs the generators named in Order.  Fresh=true parses the text anew for every
// generator; Fresh=false runs them one after another over ONE parsed model (what the CLI
// does).  Times>1 repeats the whole thing and reports whether outputs differed.
func opGen(r *req) M {
	times := r.Times
	if times < 1 {
		times = 1
	}
	var first []interface{}
	differs := 0
	var diffAt interface{}
	for it := 0; it < times; it++ {
		runs := []interface{}{}
		var shared *model.BinaryModel
		res := guard(func() M {
			if !r.Fresh {
				bm, n := parse(r.Text)
				if bm == nil {
					return M{"synerr": n}
				}
				shared = bm
			}
			return M{}
		})
		if res["panic"] != nil || res["synerr"] != nil {
			res["stage"] = "parse"
			return res
		}
		for _, lang := range r.Order {
			lang := lang
			one := guard(func() M {
				bm := shared
				if r.Fresh {
					var n int
					bm, n = parse(r.Text)
					if bm == nil {
						return M{"synerr": n}
					}
				}
				if len(bm.SyntaxErrors) > 0 {
					return M{"diags": len(bm.SyntaxErrors)}
				}
				files, err := runGen(lang, bm)
				if err != nil {
					return M{"err": err.Error()}
				}
				fm := M{}
				for k, v := range files {
					fm[k] = string(v)
				}
				o := M{"files": fm}
				if r.Dump {
					o["after"] = dumpModel(bm)
				}
				return o
			})
			one["lang"] = lang
			runs = append(runs, one)
		}
		if it == 0 {
			first = runs
		} else if !reflect.DeepEqual(first, runs) {
			differs++
			if diffAt == nil {
				diffAt = firstDiff(first, runs)
			}
		}
	}
	return M{"runs": first, "times": times, "differs": differs, "diffAt": diffAt}
}

func firstDiff(a, b []interface{}) interface{} {
	for i := range a {
		ra, rb := a[i].(M), b[i].(M)
		fa, _ := ra["files"].(M)
		fb, _ := rb["files"].(M)
		names := []string{}
		for k := range fa {
			names = append(names, k)
		}
		for k := range fb {
			if _, ok := fa[k]; !ok {
				names = append(names, k)
			}
		}
		sort.Strings(names)
		for _, k := range names {
			if !reflect.DeepEqual(fa[k], fb[k]) {
				return M{"lang": ra["lang"], "file": k, "a": fa[k], "b": fb[k]}
			}
		}
		if !reflect.DeepEqual(ra, rb) {
			return M{"lang": ra["lang"], "file": nil}
		}
	}
	return nil
}
