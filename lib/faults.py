"""Fault injection for C12 (and crash probes for C11): from a well-formed program in the
default layout (one declaration per line), build ill-formed variants with ONE fault of a
known class at a known line."""
import random
import re

import dslgen

FAULT_CLASSES = ["dup_packet", "dup_meta", "dup_option", "unknown_option", "bad_option_value", "dup_field", "dup_match_key",
                 "second_root", "length_outside_root", "length_twice", "unknown_packet_ref", "unknown_key", "unknown_length_target",
                 "unknown_match_target", "typeless_unknown_meta", "forward_meta_ref", "length_after_target"]

EXPECT_MSG = {
    "dup_packet": "Duplicate packet definition", "dup_meta": "Duplicate metadata definition", "dup_option": "is already defined",
    "unknown_option": "is not allowed in this context", "bad_option_value": "is not allowed to be", "dup_field": "uplicate field",
    "dup_match_key": "Duplicate match key", "second_root": "Multiple root packets", "length_outside_root": "only be declared in the root",
    "length_twice": "Duplicate LengthOfField", "unknown_packet_ref": "Unknown packet type", "unknown_key": "nknown",
    "unknown_length_target": "nknown", "unknown_match_target": "nknown", "typeless_unknown_meta": "Unknown MetaData type", "forward_meta_ref": "Unknown MetaData type", "length_after_target": "must be declared after",
}


def _lines(text):
    return text.rstrip("\n").split("\n")


def _packets(lines):
    """[(start_idx, end_idx, name, is_root)] of top-level packets in default layout"""
    out = []
    i = 0
    while i < len(lines):
        m = re.match(r"(root )?packet (\w+) \{$", lines[i])
        if m:
            j = i + 1
            while j < len(lines) and lines[j] != "}":
                j += 1
            out.append((i, j, m.group(2), bool(m.group(1))))
            i = j
        i += 1
    return out


def _simple_field_lines(lines, a, b):
    """indices of single-line plain fields directly inside packet lines[a..b]"""
    out = []
    depth = 0
    for i in range(a + 1, b):
        l = lines[i]
        if depth == 0 and re.match(r"    (repeat )?[\w\[\]]+ \w+( `[^`]*`)?,$", l) and i > a + 1 - 1:
            # not preceded by an attribute line
            if not lines[i - 1].strip().startswith("@"):
                out.append(i)
        depth += l.count("{") - l.count("}")
    return out


def inject(text, cls, rng):
    """-> (faulty_text, line) or None when the program offers no site for this class."""
    L = _lines(text)
    pk = _packets(L)
    if not pk:
        return None
    names = [p[2] for p in pk]
    if cls == "dup_packet":
        n = rng.choice(names)
        L += ["", "packet %s {" % n, "}"]
        return "\n".join(L) + "\n", len(L) - 1
    if cls == "dup_meta":
        idx = [i for i, l in enumerate(L) if l.startswith("MetaData ")]
        if not idx:
            return None
        i = idx[0] + 1
        if L[i] == "}":
            return None
        m = re.match(r"    (\S+) (\w+)( `[^`]*`)?,$", L[i])
        r = rng.random()
        if m and r < 0.3 and not re.match(r"[A-Z]", m.group(1)):
            # reference entry first, plain entry of the same name second: the SECOND one is the duplicate
            L[i + 1:i + 1] = ["    %s ZzDup `r`," % m.group(2), "    u32 ZzDup `p`,"]
            return "\n".join(L) + "\n", i + 3
        if m and r < 0.6 and not re.match(r"[A-Z]", m.group(1)):
            # plain first, reference of the same name second
            L[i + 1:i + 1] = ["    u32 ZzDup `p`,", "    %s ZzDup `r`," % m.group(2)]
            return "\n".join(L) + "\n", i + 3
        L.insert(i + 1, L[i])
        return "\n".join(L) + "\n", i + 2
    if cls in ("dup_option", "unknown_option", "bad_option_value"):
        if L[0] != "options {":
            L = ["options {", "}", ""] + L
        end = L.index("}")
        if cls == "dup_option":
            if end == 1:
                L.insert(1, "    LittleEndian = true;")
                end += 1
            L.insert(end, L[1])
        elif cls == "unknown_option":
            L.insert(end, "    %s = 1;" % rng.choice(["Foo", "littleEndian", "StringPrefix", "PadChar"]))
        else:
            cand = [("LittleEndian", "u8"), ("StringPrefixLenType", "i8"), ("ArrayPrefixLenType", "string"), ("FixedStringPadFromLeft", "1"),
                    ("StringPrefixLenType", "uint16"),
                    # near misses of documented values: another case, quoted, padded
                    ("StringPrefixLenType", '"U16"'), ("ArrayPrefixLenType", '"U8"'), ("LittleEndian", '"TRUE"'), ("FixedStringPadFromLeft", '"False"'),
                    ("LittleEndian", '"true "'), ("FixedStringPadChar", '"0"'), ("ArrayPrefixLenType", '"u128"')]   # (a quoted documented value, "u16", is legal)
            have = {l.strip().split(" ")[0] for l in L[1:end]}
            cand = [c for c in cand if c[0] not in have]
            if not cand:
                return None
            k, v = rng.choice(cand)
            L.insert(end, "    %s = %s;" % (k, v))
        return "\n".join(L) + "\n", end + 1
    if cls == "dup_field":
        sites = []
        for a, b, n, r in pk:
            sites += _simple_field_lines(L, a, b)
        if not sites:
            return None
        i = rng.choice(sites)
        variant = rng.choice(["plain", "plain", "attr-line-above", "as-match-field"])
        if variant == "attr-line-above":
            # the second declaration starts at its attribute: that is the offending line
            L.insert(i + 1, "    @tag(77)")
            L.insert(i + 2, L[i])
            return "\n".join(L) + "\n", i + 2
        if variant == "as-match-field":
            m = re.match(r"    (?:repeat )?[\w\[\]]+ (\w+)", L[i])
            owner = [n for a, b, n, r in pk if a < i < b]
            others = [n for n in names if not owner or n != owner[0]]
            if m and others:
                L[i + 1:i + 1] = ["    u8 ZkKey,", "    match ZkKey as %s {" % m.group(1), "        1 : %s," % others[-1], "    },"]
                return "\n".join(L) + "\n", i + 3
        L.insert(i + 1, L[i])
        return "\n".join(L) + "\n", i + 2
    if cls == "dup_match_key":
        sites = [i for i, l in enumerate(L) if re.match(r"        (\d+|\"[^\"]*\") : \w+,$", l)]
        if not sites:
            return None
        i = rng.choice(sites)
        dup = L[i]
        m = re.match(r"        (\d+) : (\w+),$", dup)
        if m and rng.random() < 0.5:
            # the same number in another spelling: leading zeros, or as the only member of a key list
            k = "0" * rng.randint(1, 3) + m.group(1)
            dup = "        %s : %s," % (k if rng.random() < 0.6 else "[%s]" % k, m.group(2))
        L.insert(i + 1, dup)
        return "\n".join(L) + "\n", i + 2
    if cls == "second_root":
        non = [p for p in pk if not p[3]]
        if not non or not any(p[3] for p in pk):
            return None
        a = rng.choice(non)[0]
        L[a] = "root " + L[a]
        # the offending declaration is the SECOND root in text order (definitions come in any order)
        return "\n".join(L) + "\n", max([a] + [p[0] for p in pk if p[3]]) + 1
    if cls == "length_outside_root":
        # inside an inline object (of any packet, the root included) …
        inl = [i for i, l in enumerate(L) if re.match(r"    (repeat )?\w+ \{$", l)]
        if inl and rng.random() < 0.5:
            i = rng.choice(inl)
            L[i + 1:i + 1] = ["        u16 ZzLen @lengthOf(ZzBody),", "        u8 ZzBody,"]
            return "\n".join(L) + "\n", i + 2
        # … or in a packet that is not the root
        non = [p for p in pk if not p[3]]
        if not non:
            return None
        a, b, n, _ = rng.choice(non)
        L.insert(b, "    u16 ZzLen @lengthOf(ZzBody),")
        L.insert(b + 1, "    %s ZzBody," % names[-1] if names[-1] != n else "    u8 ZzBody,")
        return "\n".join(L) + "\n", b + 1
    if cls == "length_twice":
        roots = [p for p in pk if p[3]]
        if not roots or len(pk) < 2:
            return None
        a, b, n, _ = roots[0]
        other = [x for x in names if x != n][-1]
        ins = ["    u16 ZaLen @lengthOf(ZaBody),", "    %s ZaBody," % other, "    u16 ZbLen @lengthOf(ZbBody),", "    %s ZbBody," % other]
        has = any("@lengthOf(" in l for l in L[a:b])
        if has:
            ins = ins[2:]
        for k, s in enumerate(ins):
            L.insert(b + k, s)
        return "\n".join(L) + "\n", b + (1 if has else 3)
    if cls == "unknown_packet_ref":
        a, b, n, _ = rng.choice(pk)
        L.insert(b, "    Nope%d ZzRef," % rng.randint(1, 9))
        return "\n".join(L) + "\n", b + 1
    if cls == "length_after_target":
        # a length field behind the member it measures (root packet without a length field; the last member is the target)
        roots = [p for p in pk if p[3]]
        if not roots or any("@lengthOf(" in l for l in L) or roots[0][1] - roots[0][0] < 2:
            return None
        a, b, n, _ = roots[0]
        m = re.match(r"    (?:repeat )?(?:[\w\[\]]+ )?(\w+)( `[^`]*`)?,$", L[b - 1])
        if not m or L[b - 1].strip().startswith(("}", "@")):
            return None
        L.insert(b, "    u16 ZzLen @lengthOf(%s)," % m.group(1))
        return "\n".join(L) + "\n", b + 1
    if cls == "forward_meta_ref":
        # a reference entry placed BEFORE the entry it names (same block): entries are registered in text order
        idx = [i for i, l in enumerate(L) if l.startswith("MetaData ")]
        if not idx or L[idx[0] + 1] == "}":
            return None
        i = idx[0] + 1
        m = re.match(r"    (\S+) (\w+)( `[^`]*`)?,$", L[i])
        if not m or re.match(r"[A-Z]", m.group(1)):
            return None
        L.insert(i, "    %s ZzFwd `f`," % m.group(2))
        return "\n".join(L) + "\n", i + 1
    if cls == "typeless_unknown_meta":
        # a checksum (or, in a root packet without one, a length) field written without a type whose name is no MetaData entry
        roots = [p for p in pk if p[3]]
        if roots and not any("@lengthOf(" in l for l in L) and rng.random() < 0.5 and roots[0][1] - roots[0][0] > 1:
            a, b, n, _ = roots[0]
            tgt = re.match(r"\s*(?:repeat )?(?:[\w\[\]]+ )?(\w+)", L[b - 1])
            if tgt and not L[b - 1].strip().startswith(("}", "@", "match")):
                L.insert(b - 1, "    ZzNoType @lengthOf(%s)," % tgt.group(1))
                return "\n".join(L) + "\n", b
        a, b, n, _ = rng.choice(pk)
        L.insert(b, "    ZzNoType @calculatedFrom(\"CRC32\"),")
        return "\n".join(L) + "\n", b + 1
    if cls == "unknown_key":
        if len(pk) < 2:
            return None
        inl = [i for i, l in enumerate(L) if re.match(r"    (repeat )?\w+ \{$", l)]
        if inl and rng.random() < 0.5:
            # inside an inline object; a member of the ENCLOSING packet is not a key there
            i = rng.choice(inl)
            L[i + 1:i + 1] = ["        match zzNoKey as ZzM {", "            1 : %s," % names[-1], "        },"]
            return "\n".join(L) + "\n", i + 2
        a, b, n, _ = pk[0]
        L.insert(b, "    match zzNoKey as ZzM {")
        L.insert(b + 1, "        1 : %s," % names[-1])
        L.insert(b + 2, "    },")
        return "\n".join(L) + "\n", b + 1
    if cls == "unknown_length_target":
        roots = [p for p in pk if p[3]]
        if not roots or any("@lengthOf(" in l for l in L):
            return None
        a, b, n, _ = roots[0]
        L.insert(b, "    u16 ZzLen @lengthOf(ZzNope),")
        return "\n".join(L) + "\n", b + 1
    if cls == "unknown_match_target":
        a, b, n, _ = pk[0]
        L.insert(b, "    u8 ZzKey,")
        L.insert(b + 1, "    match ZzKey as ZzM {")
        L.insert(b + 2, "        1 : ZzNopePacket,")
        L.insert(b + 3, "    },")
        return "\n".join(L) + "\n", b + 3
    return None


def dup_key_programs():
    """[(text, line)]: one key declared twice in two spellings, for keys over the whole range of every key type"""
    out = []
    for ty, keys in (("u8", [0, 7, 255]), ("u16", [65535]), ("u32", [2147483648, 4294967295]), ("i64", [9223372036854775807]),
                     ("u64", [4294967296, 9223372036854775807, 9223372036854775808, 18446744073709551615])):
        for k in keys:
            for a, b in (("%d", "0%d"), ("00%d", "%d"), ("%d", "[5, 0%d]"), ("[6, %d]", "000%d"), ("[0%d, 0%d]", None)):
                if b is None:
                    body = "        %s : A,\n" % (a % (k, k))
                    line = 4
                else:
                    body = "        %s : A,\n        %s : B,\n" % (a % k, b % k)
                    line = 5
                out.append(("root packet P {\n    %s k,\n    match k as m {\n%s    },\n}\n\npacket A {\n    u8 x,\n}\n\npacket B {\n    u16 y,\n}\n" % (ty, body), line))
    return out


# ---------------------------------------------------------------- crash probes (C11)

CRASH_PROBES = [
    ("meta-no-doc", "MetaData M {\n    u8 A,\n}\nroot packet P {\n    A x,\n}\n"),
    ("refmeta-no-doc", "MetaData M {\n    u8 A `a`,\n    A B,\n}\nroot packet P {\n    B x,\n}\n"),
    ("refmeta-unknown", "MetaData M {\n    Zz B `b`,\n}\nroot packet P {\n    B x,\n}\n"),
] + [("refmeta-unknown/" + nm, "MetaData M {\n    Zz B `b`,\n}\nroot packet P {\n    %s\n    Q b,\n}\npacket Q {\n}\n" % use) for nm, use in [
    ("bare", "B,"), ("repeat", "repeat B xs,"), ("typeless-length", "B @lengthOf(b),"), ("typeless-checksum", "B @calculatedFrom(\"X\"),"),
    ("prefixed-length", "@lengthOf(b)\n    B,"), ("prefixed-checksum", "@calculatedFrom(\"X\")\n    B,"), ("padded", "@leftPad('0')\n    B x,"),
    ("tagged", "@tag(3)\n    B x,"), ("as-key", "B k,\n    match k as m {\n        1 : Q,\n    },"), ("in-inline", "G {\n        B x,\n    },"),
    ("ref-of-ref", "u8 a,")]
] + [("inline/%s/%s" % (wn, bn), "packet A {\n    u8 x,\n}\nroot packet P {\n    u8 kind,\n    %s\n}\n" % (wrap % body))
     for wn, wrap in [("plain", "G {\n        %s\n    },"), ("repeat", "repeat G {\n        %s\n    },"),
                      ("nested", "G {\n        u8 g,\n        H {\n            %s\n        },\n    },")]
     for bn, body in [("key-in-enclosing-packet", "u16 n,\n        match kind as payload {\n            1 : A,\n        },"),
                      ("unknown-key", "match zz as m {\n            \"a\" : A,\n        },"),
                      ("unknown-target", "u8 k,\n        match k as m {\n            [1, 2] : Zz,\n        },"),
                      ("dup-field", "u8 a,\n        u16 a,"),
                      ("unknown-ref", "Zz z,\n        repeat Zz zs,"),
                      ("typeless-checksum", "cs @calculatedFrom(\"X\"),"),
                      ("length-inside", "l @lengthOf(b),\n        A b,"),
                      ("pad-on-scalar", "u8 a,")]
] + [
    # valid, acyclic, but every packet is reachable over MANY paths: 4^20 if fully explored packets are not remembered
    ("layers-shared-target", "root packet L0 {\n    u8 k,\n    match k as body {\n        [1, 2, 3, 4] : L1,\n    },\n}\n" +
     "".join("packet L%d {\n    u8 k,\n    match k as body {\n        [1, 2, 3, 4] : L%d,\n    },\n}\n" % (i, i + 1) for i in range(1, 21)) +
     "packet L21 {\n    u8 x,\n}\n"),
] + [("refmeta-chain", "MetaData M {\n    Zz B `b`,\n    B C `c`,\n}\nroot packet P {\n    C x,\n    C @calculatedFrom(\"X\"),\n}\n"),
     ("huge-fixed-63", "root packet P {\n    char[9000000000000000000] a,\n}\n"),
     ("huge-fixed-32", "root packet P {\n    char[4294967296] a,\n    zchar[2147483648] b,\n}\n"),
     ("huge-fixed-meta", "MetaData M {\n    char[9000000000000000000] A `a`,\n}\nroot packet P {\n    A x,\n}\n"),
     ("huge-key", "root packet P {\n    u8 k,\n    match k as m {\n        99999999999999999999999999 : Q,\n    },\n}\npacket Q {\n}\n"),
     ("huge-key-list", "root packet P {\n    u64 k,\n    match k as m {\n        [18446744073709551616, 1] : Q,\n    },\n}\npacket Q {\n}\n"),
    ("pad-on-scalar", "root packet P {\n    @leftPad('0')\n    u8 x,\n}\n"),
    ("pad-on-string", "root packet P {\n    @rightPad(' ')\n    string x,\n}\n"),
    ("pad-on-object", "root packet P {\n    @leftPad('0')\n    Q q,\n}\npacket Q {\n}\n"),
    ("pad-empty", "root packet P {\n    @leftPad()\n    char[4] x,\n}\n"),
    ("calc-on-object", "root packet P {\n    @calculatedFrom(\"CRC32\")\n    Q q,\n}\npacket Q {\n}\n"),
    ("len-on-forward-object", "root packet P {\n    @lengthOf(b)\n    Q q,\n    Q b,\n}\npacket Q {\n}\n"),
    ("ref-in-inline", "root packet P {\n    G {\n        Q q,\n    },\n}\npacket Q {\n    u8 a,\n}\n"),
    ("no-root", "packet P {\n    u8 a,\n}\n"),
    ("no-packets", "options {\n    LittleEndian = true;\n}\n"),
    ("self-recursive", "root packet P {\n    u8 a,\n    P next,\n}\n"),
    ("mutual-recursive", "root packet P {\n    Q q,\n}\npacket Q {\n    P p,\n}\n"),
    ("repeat-self", "root packet P {\n    u8 a,\n    repeat P kids,\n}\n"),
    ("unknown-key", "root packet P {\n    match k as m {\n        1 : Q,\n    },\n}\npacket Q {\n}\n"),
    ("unknown-target", "root packet P {\n    u8 k,\n    match k as m {\n        1 : Zz,\n    },\n}\n"),
    ("unknown-len-target", "root packet P {\n    u16 l @lengthOf(zz),\n    u8 a,\n}\n"),
    ("len-target-scalar", "root packet P {\n    u16 l @lengthOf(a),\n    u8 a,\n}\n"),
    ("len-target-string", "root packet P {\n    u16 l @lengthOf(a),\n    string a,\n}\n"),
    ("len-after-target", "root packet P {\n    u8 k,\n    match k as b {\n        1 : Q,\n    },\n    u16 l @lengthOf(b),\n}\npacket Q {\n}\n"),
    ("len-self", "root packet P {\n    u16 l @lengthOf(l),\n}\n"),
    ("match-in-inline", "root packet P {\n    G {\n        u8 k,\n        match k as m {\n            1 : Q,\n        },\n    },\n}\npacket Q {\n}\n"),
    ("len-in-inline", "root packet P {\n    G {\n        u16 l @lengthOf(b),\n        u8 b,\n    },\n}\n"),
    ("empty-match-key-string-int", "root packet P {\n    string k,\n    match k as m {\n        1 : Q,\n    },\n}\npacket Q {\n}\n"),
    ("meta-length", "MetaData M {\n    u16 BodyLen `l`,\n}\nroot packet P {\n    BodyLen @lengthOf(b),\n    Q b,\n}\npacket Q {\n}\n"),
    ("meta-length-string", "MetaData M {\n    string BodyLen `l`,\n}\nroot packet P {\n    BodyLen @lengthOf(b),\n    Q b,\n}\npacket Q {\n}\n"),
    ("checksum-no-type", "root packet P {\n    cs @calculatedFrom(\"X\"),\n}\n"),
    ("length-no-type", "root packet P {\n    l @lengthOf(b),\n    Q b,\n}\npacket Q {\n}\n"),
    ("two-roots", "root packet P {\n}\nroot packet Q {\n}\n"),
    ("dup-packet-root", "root packet P {\n    u8 a,\n}\nroot packet P {\n    u16 b,\n}\n"),
    ("huge-fixed", "root packet P {\n    char[99999999999999999999] a,\n}\n"),
    ("zero-fixed", "root packet P {\n    char[0] a,\n    zchar[0] b,\n}\n"),
    ("tag-huge", "root packet P {\n    @tag(99999999999999999999999)\n    u8 a,\n}\n"),
    ("key-list-mixed", "root packet P {\n    u8 k,\n    match k as m {\n        [1, \"a\", 2] : Q,\n    },\n}\npacket Q {\n}\n"),
    ("object-named-like-meta", "MetaData M {\n    u8 A `a`,\n}\nroot packet P {\n    A,\n    repeat A xs,\n}\n"),
    ("option-value-type", "options {\n    GoPackage = char[3];\n    JavaPackage = 5;\n}\nroot packet P {\n}\n"),
    ("option-padchar-nul", "options {\n    FixedStringPadChar = '\\x00';\n}\nroot packet P {\n    char[3] a,\n}\n"),
    ("deep-inline", "root packet P {\n" + "".join("    " * (i + 1) + "G%d {\n" % i for i in range(40)) + "    " * 41 + "u8 a,\n" +
     "".join("    " * (40 - i) + "},\n" for i in range(40)) + "}\n"),
]


# identifiers that BEGIN with a word of the DSL, in every position where an identifier is the first token of a declaration:
# the lexer takes the longest match, so `repeatCount` is one identifier and never `repeat Count`
KEYWORD_PREFIX_PROGRAM = """MetaData Types {
    u16 repeatCount `d`,
    u32 rootCause `d`,
    char[4] stringCode `d`,
    zchar[4] zcharLegacy `d`,
    u8 matchKind `d`,
    u8 repeatFlag `d`,
    repeatCount optionsCount `a reference entry`,
}

root packet Quote {
    u16 MsgType,
    repeatCount,
    rootCause,
    stringCode,
    zcharLegacy,
    optionsCount,
    repeatPolicy Policy,
    repeatPolicy,
    packetHeader,
    repeatWindow {
        u8 Open,
        rootCause,
        matchInner {
            u8 trueValue,
        },
    },
    matchKind,
    match matchKind as Body {
        1 : packetHeader,
        2 : optionsBlock,
    },
    repeat u8 Flags,
    repeat repeatPolicy Policies,
    repeat repeatFlag,
}

packet repeatPolicy {
    u8 Mode,
}

packet packetHeader {
    u32 Seq,
}

packet optionsBlock {
    string Text,
}
"""


def bad_option_programs():
    """every option with every value that is a word of the DSL but not a documented value of THAT option: (text, line of the option)"""
    types = ["i8", "i16", "i32", "i64", "f32", "f64", "char", "string", "uint16", "int32"]
    table = {"StringPrefixLenType": types + ["true", "'0'", "16"], "ArrayPrefixLenType": types + ["false", "' '", "2"],
             "LittleEndian": ["u8", "0", "1", "'0'", "string"], "FixedStringPadFromLeft": ["u16", "0", "' '", "char[]"],
             "FixedStringPadChar": ["u8", "true", "0", "string"]}
    out = []
    for k, vals in table.items():
        for v in vals:
            out.append(("options {\n    LittleEndian = %s;\n    %s = %s;\n}\n\nroot packet P {\n    char[4] a,\n    repeat u8 b,\n    string c,\n}\n"
                        % ("true", k, v) if k != "LittleEndian" else "options {\n    ArrayPrefixLenType = u8;\n    %s = %s;\n}\n\nroot packet P {\n    char[4] a,\n}\n" % (k, v), 3))
    return out


# LENGTHS: a token may be as long as the author likes - keys, identifiers, doc strings, numbers, option values, comments
def _long_probes():
    out = []
    for n in (40, 97, 120, 300, 5000):
        k = "K" * n
        out.append(("long/string-key-in-list/%d" % n, 'packet P {\n    string kind,\n    match kind as body {\n        ["%s", "B"] : Q,\n        ["A", 1, "%sx", 2, 3, 4] : Q,\n    },\n}\npacket Q {\n    u8 x,\n}\n' % (k, k)))
        out.append(("long/string-key-single/%d" % n, 'root packet P {\n    string kind,\n    match kind as body {\n        "%s" : Q,\n    },\n}\npacket Q {\n    u8 x,\n}\n' % k))
        out.append(("long/identifier/%d" % n, "root packet P {\n    u8 %s,\n    F%s {\n        u8 a,\n    },\n}\n" % ("f" * n, "g" * n)))
        out.append(("long/doc/%d" % n, "MetaData M {\n    u8 A `%s`,\n}\nroot packet P {\n    A,\n    u16 b `%s`,\n}\n" % ("d" * n, "e " * n)))
        out.append(("long/digits/%d" % n, "root packet P {\n    u8 k,\n    @tag(%s)\n    u8 t,\n    match k as m {\n        %s : Q,\n        [1, %s] : Q,\n    },\n}\npacket Q {\n}\n" % ("9" * n, "7" * n, "8" * n)))
        out.append(("long/option-value/%d" % n, 'options {\n    JavaPackage = "%s";\n    GoPackage = "%s";\n}\nroot packet P {\n    u8 a,\n}\n' % (".".join(["p"] * n), "g" * n)))
        out.append(("long/comment/%d" % n, "// %s\nroot packet P { // %s\n    u8 a, // %s\n}\n" % ("c" * n, "c" * n, "c " * n)))
        out.append(("long/key-list-many/%d" % n, "root packet P {\n    u32 k,\n    match k as m {\n        [%s] : Q,\n    },\n}\npacket Q {\n}\n" % ", ".join(str(i) for i in range(1, min(n, 400) + 1))))
    return out


CRASH_PROBES += _long_probes()
