"""C13 determinism, C14 independence, C16 entry points."""
import itertools
import hashlib
import json
import os
import random
import subprocess

from common import run_bounded, CACHE, GOENV, LEAN, REPO, VERIF, Lock, build_harness, log, repo_hash, rm, scratch, sh, tree_hash
from framework import check_obligations
import dslgen
import harness
import leandrv
import pipeline
import textgen

ALL = pipeline.ALL_TARGETS
FLAG = {"lua": "-l", "rust": "-r", "go": "-g", "java": "-j", "python": "-p", "cpp": "-c"}
LONG = {"lua": "--lua_output", "rust": "--rs_output", "go": "--go_output", "java": "--java_output", "python": "--py_output", "cpp": "--cpp_output"}


def compile_args(style, implicit, f, outs, rng):
    """the same compile request spelled with short flags, long flags, `--flag=value`, or with the input file last"""
    pairs = [("file", f)] + list(outs)
    if style in ("long-shuffled", "file-last"):
        if style == "file-last":
            pairs = pairs[1:] + pairs[:1]
        else:
            rng.shuffle(pairs)
    args = [] if implicit else ["compile"]
    for k, v in pairs:
        short = "-f" if k == "file" else FLAG[k]
        long_ = "--file" if k == "file" else LONG[k]
        if style == "short" or style == "file-last":
            args += [short, v]
        elif style == "long-eq":
            args += ["%s=%s" % (long_, v)]
        else:
            args += [long_, v]
    return args


def regenerate_facts(ctx):
    """T1: rebuild the fact extractor and regenerate Generated/Facts.lean from /repo's CURRENT source."""
    with Lock("facts"):
        fbin = os.path.join(CACHE, "facts")
        src = os.path.join(VERIF, "tools", "facts")
        key = tree_hash(src, (".go", ".mod"))
        stamp = os.path.join(CACHE, "facts.stamp")
        if not (os.path.exists(fbin) and os.path.exists(stamp) and open(stamp).read() == key):
            if not os.path.exists(os.path.join(src, "go.sum")):
                open(os.path.join(src, "go.sum"), "w").close()
            p = sh(["go", "build", "-o", fbin, "."], cwd=src, env=GOENV, check=False, timeout=600)
            if p.returncode != 0:
                ctx.broken.append("fact extractor does not build: " + p.stderr[-300:])
                return False
            with open(stamp, "w") as fh:
                fh.write(key)
        out = os.path.join(LEAN, "FinProtoc", "Generated", "Facts.lean")
        tmp = out + ".new"
        p = sh([fbin, REPO, tmp], check=False, timeout=600)
        if p.returncode != 0:
            ctx.broken.append("fact extraction failed on the current tree: " + (p.stderr or p.stdout)[-300:])
            return False
        new = open(tmp).read()
        old = open(out).read() if os.path.exists(out) else None
        if new != old:
            os.replace(tmp, out)
        else:
            os.remove(tmp)
        ctx.cov["facts_file"] = "lean/FinProtoc/Generated/Facts.lean (regenerated from /repo on this run)"
        return True


def multi_programs(seed, n):
    """programs with several packets, several match fields per packet, several cross references"""
    rng = random.Random(seed * 17 + 1)
    out = []
    cfg = dslgen.Cfg(max_packets=7, max_fields=8)
    # every other program lets several packets declare inline objects of one name: anything a
    # generator remembers per NAME across packets then depends on the order it meets the packets in
    cfg2 = dslgen.Cfg(max_packets=7, max_fields=8, unique_inline=False)
    while len(out) < n:
        p = dslgen.gen_program(rng, cfg2 if len(out) % 2 else cfg)
        nm = sum(1 for pk in p["packets"] for f in pk["fields"] if f["kind"] == "match")
        if len(p["packets"]) >= 3 and nm >= 2:
            out.append(dslgen.render(p))
    out.append("root packet NewOrder {\n    u32 Id,\n    repeat Leg {\n        u16 No,\n        string Sym,\n    },\n}\n\npacket CancelOrder {\n    u32 Id,\n    repeat Leg {\n        u16 No,\n        string Sym,\n    },\n}\n\npacket Amend {\n    Leg {\n        u16 No,\n        string Sym,\n    },\n}\n")
    # every configured padding (char x side) over fields with and without their own padding: what a generator normalises in place
    # in the CONFIGURATION's padding object is seen by every generator after it
    for ch in ("'\\x00'", "'0'", "' '"):
        for left in ("true", "false"):
            out.append("options {\n    FixedStringPadChar = %s;\n    FixedStringPadFromLeft = %s;\n}\n\nroot packet R {\n    char[4] a,\n    @leftPad('0')\n    char[3] b,\n"
                       "    zchar[5] c,\n    repeat char[2] d,\n    @rightPad('\\x00')\n    char[6] e,\n    u8 k,\n    match k as m {\n        1 : A,\n    },\n}\n\n"
                       "packet A {\n    char[8] s,\n    repeat zchar[3] zs,\n}\n" % (ch, left))
    # tables whose keys are not in ascending order (nested, so that one
    # packet's sample is built from another packet's table), two match fields on one key
    out.append("root packet Frame {\n    u16 MsgType,\n    u16 BodyLen @lengthOf(Body),\n    match MsgType as Body {\n        30 : Order,\n        2 : Ping,\n        [10, 1] : Pong,\n    },\n"
               "    u32 Trailer,\n}\n\npacket Order {\n    u8 Kind,\n    match Kind as Leg {\n        3 : Forward,\n        1 : Spot,\n"
               "        2 : Swap,\n    },\n    string Note,\n    match Note as Extra {\n        \"NO\" : Ping,\n        \"CX\" : Pong,\n    },\n}\n\n"
               "packet Forward {\n    u32 a,\n}\n\npacket Spot {\n    u16 b,\n}\n\npacket Swap {\n    u8 c,\n    Order Inner,\n}\n\npacket Ping {\n    u8 p,\n}\n\npacket Pong {\n    u64 q,\n}\n".replace("    Order Inner,\n", ""))
    out.append("options {\n    FixedStringPadFromLeft = true;\n}\n\nroot packet R {\n    zchar[4] a,\n    @leftPad('\\x00')\n    char[3] b,\n    char[5] c,\n    u8 k,\n    match k as m {\n        1 : A,\n        2 : B,\n    },\n    u16 k2,\n    match k2 as m2 {\n        7 : B,\n        8 : C,\n    },\n}\n\npacket A {\n    zchar[2] z,\n    B b,\n}\n\npacket B {\n    C c,\n}\n\npacket C {\n    repeat zchar[3] zs,\n}\n")
    # keys at the top of their types: every target has its own spelling for them, derived from the same parsed pairs
    out.append(BIG_KEYS)
    # a length field aimed at a member that is no packet (the visitor accepts any member): what a generator does about the relation
    # it cannot serve, it must do in its own output, not in the model the next generator reads
    for decl in ("string Text", "char[8] Text", "u32 Text", "repeat u16 Text", "Text {\n        u8 a,\n    }"):
        out.append("root packet Envelope {\n    u16 MsgType,\n    u16 TextLen @lengthOf(Text),\n    %s,\n    u32 Seq,\n}\n" % decl)
    return out


NAME_COLLISION = """options {
    JavaPackage = "com.example.msg";
    GoPackage = "msg";
    GoModule = "example.com/msg";
}

root packet Feed {
    u8 Kind,
    match Kind as Body {
        1 : Quote_Level2,
        2 : QuoteLevel2,
        3 : logon,
        4 : Logon,
    },
}

packet Quote_Level2 {
    u8 a,
}

packet QuoteLevel2 {
    u16 b,
    string s,
}

packet logon {
    u32 c,
}

packet Logon {
    u64 d,
    string t,
}
"""

BIG_KEYS = """options {
    JavaPackage = "com.example.big";
    GoPackage = "big";
    GoModule = "example.com/big";
}

packet A {
    u8 x,
}

packet B {
    u16 y,
}

root packet Big {
    u32 Kind,
    match Kind as Body {
        3000000000 : A,
        [4294967295, 2147483648, 7] : B,
    },
    u64 Wide,
    match Wide as Payload {
        18446744073709551615 : A,
        [9223372036854775808, 4294967296] : B,
    },
    i64 Signed,
    match Signed as Tail {
        9223372036854775807 : A,
        2147483648 : B,
    },
}
"""

ROOTLESS = "packet A {\n    u8 x,\n}\n\npacket B {\n    A a,\n    string s,\n}\n\npacket C {\n    u16 k,\n    match k as m {\n        1 : A,\n        2 : B,\n    },\n}\n"


OTHER_OPTIONS = """options {
    LittleEndian = true;
    StringPrefixLenType = u8;
    ArrayPrefixLenType = u32;
    FixedStringPadFromLeft = true;
    FixedStringPadChar = '0';
    JavaPackage = "org.other.pkg";
    GoPackage = "other";
    GoModule = "example.org/other";
}

MetaData Types {
    zchar[6] Code `c`,
    u64 Big `b`,
}

root packet Legacy {
    u8 Kind,
    char[10] Account,
    Code,
    repeat Big,
    string Text,
    match Kind as Body {
        1 : Sub,
    },
}

packet Sub {
    @rightPad(' ')
    char[3] Flag,
}
"""

PLAIN_FIXED = """root packet Quote {
    u16 Kind,
    char[8] Sender,
    repeat char[4] Tags,
    string Note,
    repeat u32 Levels,
}
"""


def run_c13(ctx):
    regenerate_facts(ctx)
    check_obligations(ctx, "C13")
    n, k = (25, 30) if ctx.tier == "quick" else (300, 200)
    texts = multi_programs(ctx.seed, n)
    # the same programs laid out on ONE line: positions (line, column) of declarations then coincide
    texts += [" ".join(textgen.tokens_of(t)) for t in texts[: max(3, n // 3)]]
    res = harness.run_ops([{"op": "gen", "text": t, "order": ALL, "fresh": True, "times": k} for t in texts])
    for t, r in zip(texts, res):
        ctx.count("programs")
        ctx.count("compilations", k * len(ALL))
        if r.get("differs"):
            d = r.get("diffAt") or {}
            ctx.finding("nondeterministic/%s/%s" % (d.get("lang"), file_class(d.get("file"))),
                        "%d of %d repeated compilations of one DSL differ (%s)" % (r["differs"], k, d.get("file")),
                        {"dsl": t, "diff": d, "repetitions": k})
        elif "runs" in r:
            ctx.sample({"dsl": t[:200], "repetitions": k, "verdict": "all outputs byte-identical"}, 2)
    # history: what was compiled BEFORE in the same process (a build daemon, an editor plug-in, the Go API used twice) must not
    # matter — one harness process compiles P, then a program that sets every option to a non-default value, then P again
    seq = []
    for t in texts[: (8 if ctx.tier == "quick" else 80)] + [PLAIN_FIXED]:
        seq += [{"op": "gen", "text": t, "order": ALL, "fresh": True}, {"op": "gen", "text": OTHER_OPTIONS, "order": ALL, "fresh": True},
                {"op": "gen", "text": t, "order": ALL, "fresh": True}]
    sres = harness.run_ops(seq)
    for j in range(0, len(seq), 3):
        a, b = sres[j], sres[j + 2]
        ctx.count("history_pairs")
        fa = {(r["lang"], k): v for r in a.get("runs", []) for k, v in (r.get("files") or {}).items()}
        fb = {(r["lang"], k): v for r in b.get("runs", []) for k, v in (r.get("files") or {}).items()}
        if "runs" in a and "runs" in b and fa != fb:
            bad = sorted(k for k in set(fa) | set(fb) if fa.get(k) != fb.get(k))
            ctx.finding("nondeterministic/history/%s" % bad[0][0], "the same DSL compiles to different bytes after another DSL (with other options) was compiled in the same process",
                        {"dsl": seq[j]["text"], "compiled_in_between": OTHER_OPTIONS, "files": ["%s/%s" % k for k in bad[:5]],
                         "first": fa.get(bad[0], "")[:1200], "again": fb.get(bad[0], "")[:1200]})
            break
    # packet names that differ only in case / underscores: every target derives file and type names from them by case
    # conversion, so two packets can claim one file; which one gets it must not depend on map order (judged per target)
    for lang in ALL:
        r = harness.run_ops([{"op": "gen", "text": NAME_COLLISION, "order": [lang], "fresh": True, "times": k}])[0]
        ctx.count("compilations", k)
        if r.get("differs"):
            dd = r.get("diffAt") or {}
            ctx.finding("nondeterministic/packet-names-collide/%s" % lang,
                        "%d of %d compilations of a DSL whose packet names collide under case conversion differ (%s)" % (r["differs"], k, dd.get("file")),
                        {"dsl": NAME_COLLISION, "diff": dd, "repetitions": k})
    # across processes: the real CLI twice
    hbin, cbin = build_harness()
    d = scratch()
    try:
        for t in texts[: (4 if ctx.tier == "quick" else 30)]:
            f = os.path.join(d, "x.dsl")
            with open(f, "w") as fh:
                fh.write(t)
            trees = []
            for run in range(2):
                o = os.path.join(d, "o%d" % run)
                rm(o)
                args = [cbin, "compile", "-f", f]
                for lang in ALL:
                    args += [FLAG[lang], os.path.join(o, lang)]
                run_bounded(args, cwd=d)
                trees.append(read_tree(o))
            ctx.count("cli_process_pairs")
            if trees[0] != trees[1]:
                bad = sorted(k for k in set(trees[0]) | set(trees[1]) if trees[0].get(k) != trees[1].get(k))
                ctx.finding("nondeterministic/process/%s" % file_class(bad[0]), "two runs of the compile command write different bytes", {"dsl": t, "files": bad[:5]})
        # a compilation that fails part-way (no root packet: Lua / Python / C++ refuse, Rust / Go / Java do not) must leave the
        # same files every time, too: what is on disk then depends on the ORDER in which the targets are served
        f = os.path.join(d, "rootless.dsl")
        with open(f, "w") as fh:
            fh.write(ROOTLESS)
        for langs in (["go", "python"], ["rust", "lua"], ["java", "cpp", "go"], list(ALL)):
            outcomes = {}
            for run in range(10 if ctx.tier == "quick" else 40):
                o = os.path.join(d, "r")
                rm(o)
                args = [cbin, "compile", "-f", f]
                for lang in langs:
                    args += [FLAG[lang], os.path.join(o, lang)]
                p = run_bounded(args, cwd=d)
                tree = read_tree(o)
                outcomes.setdefault((p.returncode, tuple(sorted((k, hashlib.sha256(v).hexdigest()) for k, v in tree.items()))), run)
                ctx.count("cli_partial_failure_runs")
            if len(outcomes) > 1:
                ctx.finding("nondeterministic/process/partial-failure",
                            "the same failing invocation (%s, no root packet) leaves different file sets from run to run" % "+".join(langs),
                            {"dsl": ROOTLESS, "targets": langs, "outcomes": [{"exit": k[0], "files": [n for n, _ in k[1]], "first_seen_in_run": v} for k, v in outcomes.items()]})
    finally:
        rm(d)
    if ctx.broken and not ctx.violations:
        ctx.finding("obligation/C13", "; ".join(ctx.broken)[:600], {"broken": ctx.broken, "facts": "lean/FinProtoc/Generated/Facts.lean"}, False)
    ctx.cov.update({"evaluations": ctx.cov.get("compilations", 0), "distinct_nontrivial": len(set(texts)),
                    "rule": "programs with >=3 packets and >=2 match fields; each compiled K times in one process (Go re-randomises map order per range) and twice by the CLI"})
    return ctx.finish("proof")


def file_class(name):
    if not name:
        return "?"
    base = name.split("/")[-1]
    if base == "lib.rs":
        return "lib.rs"
    ext = base.rsplit(".", 1)[-1]
    return ("test." if "test" in base.lower() else "") + ext


def read_tree(root):
    out = {}
    for d, _, files in os.walk(root):
        for f in files:
            p = os.path.join(d, f)
            with open(p, "rb") as fh:
                out[os.path.relpath(p, root)] = fh.read()
    return out


# names that are initialisms / already in one of the case conventions: what a case-conversion
# library keeps in configurable tables
ACRONYMS = """root packet ID {
    u64 ID,
    u32 URL,
    u16 API,
    u8 Id,
    u8 id,
    u16 HTTP,
    u16 JSON,
    char[4] UUID,
    u8 k,
    match k as IP {
        1 : URL,
        2 : API,
    },
}

packet URL {
    u8 ID,
}

packet API {
    string ID,
}
"""


def run_c14(ctx):
    regenerate_facts(ctx)
    check_obligations(ctx, "C14")
    n = 10 if ctx.tier == "quick" else 120
    rng = random.Random(ctx.seed * 23 + 5)
    texts = multi_programs(ctx.seed + 1, n)
    fresh = harness.run_ops([{"op": "gen", "text": t, "order": ALL, "fresh": True} for t in texts])
    orders = []
    for _ in texts:
        os_ = [list(ALL)]
        # subsets in CLI order + random orders
        for _ in range(6 if ctx.tier == "quick" else 40):
            sub = [x for x in ALL if rng.random() < 0.6] or [rng.choice(ALL)]
            os_.append(sub)
            perm = list(ALL)
            rng.shuffle(perm)
            os_.append(perm)
        orders.append(os_)
    reqs, where = [], []
    for i, t in enumerate(texts):
        for o in orders[i]:
            reqs.append({"op": "gen", "text": t, "order": o, "fresh": False, "dump": True})
            where.append((i, o))
    shared = harness.run_ops(reqs)
    for (i, o), r in zip(where, shared):
        ctx.count("orders")
        base = {x["lang"]: x for x in fresh[i].get("runs", [])}
        prev_dump = None
        for x in r.get("runs", []):
            b = base.get(x["lang"], {})
            if ("files" in x) != ("files" in b) or x.get("files") != b.get("files"):
                names = sorted(set(x.get("files") or {}) | set(b.get("files") or {}))
                bad = [k for k in names if (x.get("files") or {}).get(k) != (b.get("files") or {}).get(k)]
                ctx.finding("interference/%s/after:%s" % (x["lang"], "+".join(o[:o.index(x["lang"])]) or "-"),
                            "files of %s differ from a single-target run when generated in the order %s" % (x["lang"], o),
                            {"dsl": texts[i], "order": o, "files": bad[:4],
                             "alone": (b.get("files") or {}).get(bad[0] if bad else "", "")[:1500], "shared": (x.get("files") or {}).get(bad[0] if bad else "", "")[:1500]})
                break
            if prev_dump is not None and x.get("after") != prev_dump:
                ctx.finding("model-changed/" + x["lang"], "generator %s altered the parsed model" % x["lang"], {"dsl": texts[i], "order": o})
                break
            prev_dump = x.get("after")
        else:
            ctx.count("orders_ok")
    ctx.sample({"orders_per_program": len(orders[0]), "example_order": orders[0][2] if len(orders[0]) > 2 else orders[0][0]})
    # Process-separated: state that is not in the model (package variables, library configuration)
    # sticks to the harness process, so "alone" above is not alone with respect to it.  One CLI
    # process per target against one CLI process for all targets.
    hbin, cbin = build_harness()
    d = scratch()
    try:
        for t in texts[: (3 if ctx.tier == "quick" else 25)] + [ACRONYMS]:
            f = os.path.join(d, "x.dsl")
            with open(f, "w") as fh:
                fh.write(t)
            def cli(langs, tag):
                o = os.path.join(d, tag)
                rm(o)
                args = [cbin, "compile", "-f", f]
                for lang in langs:
                    args += [FLAG[lang], os.path.join(o, lang)]
                run_bounded(args, cwd=d)
                return {lang: read_tree(os.path.join(o, lang)) for lang in langs}
            together = cli(ALL, "all")
            for lang in ALL:
                ctx.count("process_pairs")
                alone = cli([lang], "one")[lang]
                if alone != together[lang]:
                    bad = sorted(k for k in set(alone) | set(together[lang]) if alone.get(k) != together[lang].get(k))
                    ctx.finding("interference/process/%s" % lang,
                                "`compile` writes other %s files when the other targets are requested in the same invocation" % lang,
                                {"dsl": t, "target": lang, "files": bad[:5],
                                 "alone": alone.get(bad[0], b"").decode("utf-8", "replace")[:1500],
                                 "together": together[lang].get(bad[0], b"").decode("utf-8", "replace")[:1500]})
            # output directories that overlap: one directory for every target, and each target's directory inside the next one's
            # (both ways round) — what a target writes must not depend on where the OTHER targets are sent
            alone_all = {lang: cli([lang], "one")[lang] for lang in ALL}
            chain = {}
            for k, lang in enumerate(ALL):
                chain[lang] = os.path.join(*(["n"] + [ALL[j] for j in range(len(ALL) - 1, k - 1, -1)]))
            rchain = {}
            for k, lang in enumerate(ALL):
                rchain[lang] = os.path.join(*(["m"] + [ALL[j] for j in range(0, k + 1)]))
            for tag, where in (("shared", {lang: "s" for lang in ALL}), ("nested", chain), ("nested-reverse", rchain)):
                o = os.path.join(d, "lay")
                rm(o)
                args = [cbin, "compile", "-f", f]
                for lang in ALL:
                    args += [FLAG[lang], os.path.join(o, where[lang])]
                run_bounded(args, cwd=d)
                ctx.count("directory_layouts")
                for lang in ALL:
                    got = read_tree(os.path.join(o, where[lang]))
                    bad = sorted(k for k, v in alone_all[lang].items() if got.get(k) != v)
                    if bad:
                        ctx.finding("interference/directories/%s/%s" % (tag, lang),
                                    "`compile` with overlapping output directories (%s): files of %s are missing or differ from a single-target run" % (tag, lang),
                                    {"dsl": t, "target": lang, "layout": where, "files": bad[:5], "present": bad[0] in got})
                        break
    finally:
        rm(d)
    if ctx.broken and not ctx.violations:
        ctx.finding("obligation/C14", "; ".join(ctx.broken)[:600], {"broken": ctx.broken}, False)
    ctx.cov.update({"evaluations": len(reqs), "distinct_nontrivial": len(set(texts)),
                    "rule": "programs with every padding form; generators over ONE model in the CLI order for random subsets and in random permutations, compared with fresh single-target runs; model dumped after every generator"})
    return ctx.finish("proof")


# --------------------------------------------------------------------------- C16

LANG_TITLE = {"lua": "Lua", "rust": "Rust", "go": "Go", "java": "Java", "python": "Python", "cpp": "C++"}


def model_world(ctx, dsl, exp, where, before, rc, got, args):
    """T3 for the wrapper MODEL of `compile` (Cli.runCompile, the object of compile_files / compile_nowhere_else): the model is run
    on the generators' file maps and the initial directory content; its final world must be the tree the real binary left."""
    by_lang = {r["lang"]: r for r in exp.get("runs", [])}
    targets = []
    for lang in ALL:
        r = by_lang.get(lang)
        if lang not in where or r is None:
            targets.append({"lang": LANG_TITLE[lang], "path": "", "files": []})
        elif "files" not in r:
            targets.append({"lang": LANG_TITLE[lang], "path": where[lang], "error": "x"})
        else:
            targets.append({"lang": LANG_TITLE[lang], "path": where[lang], "files": [[os.path.normpath(k), v] for k, v in sorted(r["files"].items())]})     # the OS identifies a//b with a/b; `World` paths are normal forms
    try:
        init = [[k, v.decode("utf-8")] for k, v in sorted(before.items())]
    except UnicodeDecodeError:
        return
    m = leandrv.run_ops([{"op": "compile_world", "diags": [], "files": init, "targets": targets}])[0]
    ctx.count("wrapper_model_cases")
    mtree = {os.path.normpath(k): v.encode("utf-8") for k, v in (m.get("files") or [])}
    if mtree != got or (m.get("exit") == 0) != (rc == 0):
        bad = sorted(k for k in set(got) | set(mtree) if got.get(k) != mtree.get(k))
        ctx.finding("t3/cli-model-drift/compile", "the wrapper model (Cli.runCompile) and the real `compile` leave different trees (real exit %d, model exit %s)" % (rc, m.get("exit")),
                    {"dsl": dsl, "args": args, "differing": bad[:6], "broken": "correspondence T3/cli (theorems compile_files, compile_nowhere_else, compile_files_disjoint)"}, False)

def run_c16(ctx):
    check_obligations(ctx, "C16")
    import checks_front
    hbin, cbin = build_harness()
    so = checks_front.build_so()
    rng = random.Random(ctx.seed * 41 + 9)
    n = 12 if ctx.tier == "quick" else 150
    texts = list(textgen.FIXED_TEXTS[:12]) + list(textgen.FIXED_TEXTS[-7:])
    for _ in range(n):
        t = dslgen.render(dslgen.gen_program(rng, dslgen.Cfg()))
        texts += [t, textgen.relayout(t, rng, comments=0.2), textgen.mutate(t, rng)]
    lib = harness.run_ops([{"op": "format", "text": t} for t in texts])
    d = scratch()
    seen_fmt = []   # (request for the wrapper model, what the real binary did)
    try:
        for t, lr in zip(texts, lib):
            if "panic" in lr or "fatal" in lr:
                continue
            ctx.count("texts")
            f = os.path.join(d, "in.dsl")
            # format -d
            if t and "\x00" not in t and not t.startswith("-"):
                rc, out, err = checks_front.cli(cbin, ["format", rng.choice(["-d", "-d", "--dsl"]), t], d)
                want = (lr["out"] + "\n") if lr.get("ok") else None
                if lr.get("ok"):
                    if rc != 0 or out != want:
                        ctx.finding("format-d/stdout", "format -d does not print exactly the formatter's result", {"text": t, "stdout": out[:800], "expected": want[:800], "exit": rc})
                    else:
                        ctx.count("format_d_ok")
                elif rc == 0:
                    ctx.finding("format-d/exit", "format -d exits 0 on a syntax error", {"text": t, "stdout": out[:400]})
                seen_fmt.append(({"op": "format_world", "fmt": lr["out"] if lr.get("ok") else None, "dsl": t, "file": "", "files": []},
                                 {"exit": rc, "stdout": out if lr.get("ok") else None, "files": {}}, t))
            # format -f
            with open(f, "w", encoding="utf-8") as fh:
                fh.write(t)
            fl = rng.choice(["-f", "-f", "--file", "--file=" + f])
            rc, out, err = checks_front.cli(cbin, ["format", fl] if "=" in fl else ["format", fl, f], d)
            after = open(f, encoding="utf-8").read()
            seen_fmt.append(({"op": "format_world", "fmt": lr["out"] if lr.get("ok") else None, "dsl": "", "file": "in.dsl", "files": [["in.dsl", t]]},
                             {"exit": rc, "stdout": out if lr.get("ok") else None, "files": {"in.dsl": after}}, t))
            if lr.get("ok"):
                if rc != 0 or after != lr["out"]:
                    ctx.finding("format-f/file", "format -f does not leave exactly the formatter's result in the file", {"text": t, "file": after[:800], "expected": lr["out"][:800], "exit": rc})
                else:
                    ctx.count("format_f_ok")
            else:
                if rc == 0 or after != t:
                    ctx.finding("format-f/error", "format -f on a syntax error: exit %d, file %s" % (rc, "changed" if after != t else "unchanged"), {"text": t, "file": after[:400]})
                else:
                    ctx.count("format_f_err_ok")
            # the C export
            if so and "\x00" not in t:
                r = checks_front.so_format(so, t.encode("utf-8"), d)
                if "result" not in r:
                    ctx.finding("so/abort", "FormatPacketDslExport does not return", {"text": t, "result": r})
                elif lr.get("ok") and r["result"] != lr["out"]:
                    ctx.finding("so/result", "FormatPacketDslExport returns a different text than the formatter", {"text": t, "result": r["result"][:600], "expected": lr["out"][:600]})
                elif not lr.get("ok") and not r["result"].startswith("Error:"):
                    ctx.finding("so/error", "FormatPacketDslExport does not report the syntax error", {"text": t, "result": r["result"][:300]})
                else:
                    ctx.count("so_ok")
        # T3 for the wrapper MODEL (Cli.runFormat, the object of the C16 theorems): executed on the same cases, its world must be
        # the world the real binary left behind (exit status, files; standard output when there is a result)
        mw = leandrv.run_ops([r for r, _, _ in seen_fmt])
        for (r, real, t), m in zip(seen_fmt, mw):
            ctx.count("wrapper_model_cases")
            mfiles = {k: v for k, v in (m.get("files") or [])}
            if m.get("exit") != real["exit"] or mfiles != real["files"] or (real["stdout"] is not None and m.get("stdout") != real["stdout"]):
                ctx.finding("t3/cli-model-drift/format", "the wrapper model (Cli.runFormat) and the real `format %s` disagree" % ("-f" if r["file"] else "-d"),
                            {"text": t, "real": {"exit": real["exit"], "stdout": (real["stdout"] or "")[:400], "files": {k: v[:400] for k, v in real["files"].items()}},
                             "model": {"exit": m.get("exit"), "stdout": str(m.get("stdout"))[:400]}, "broken": "correspondence T3/cli (theorems format_d, format_f, format_*_error)"}, False)
                break
        # the C export inside ONE long-lived host process (an editor): every text twice in a row, then an earlier text again —
        # each answer must be the library result of THAT text, whatever was asked before
        if so:
            usable = [(t, lr) for t, lr in zip(texts, lib) if "\x00" not in t and not ("panic" in lr or "fatal" in lr) and not any(0xD800 <= ord(ch) <= 0xDFFF for ch in t)]
            seq = []
            for i, (t, lr) in enumerate(usable):
                seq += [(t, lr), (t, lr)]
                if i >= 2 and i % 2 == 0:
                    seq += [usable[i - 2], (t, lr)]
            got, ended = checks_front.so_session_results(so, [t for t, _ in seq], d)
            ctx.count("so_session_calls", len(got))
            if not ended:
                ctx.finding("so/session-abort", "FormatPacketDslExport stops answering after %d of %d calls in one host process" % (len(got), len(seq)),
                            {"texts": [t for t, _ in seq[max(0, len(got) - 3):len(got) + 1]]})
            for k, ((t, lr), r) in enumerate(zip(seq, got)):
                if r is None:
                    continue
                bad = (r != lr["out"]) if lr.get("ok") else (not r.startswith("Error:"))
                if bad:
                    ctx.finding("so/session-result", "FormatPacketDslExport, call %d of one host process: the answer is not the library result of the text it was given "
                                "(the same text asked once in a fresh process is answered correctly)" % (k + 1),
                                {"text": t, "result": r[:600], "expected": (lr["out"][:600] if lr.get("ok") else "Error:…"), "previous_texts": [x for x, _ in seq[max(0, k - 3):k]]})
                    break
        # compile: explicit and implicit sub-command, flag subsets
        progs = [dslgen.render(dslgen.gen_program(rng, dslgen.Cfg())) for _ in range(4 if ctx.tier == "quick" else 40)]
        # programs without a packet (an options / MetaData dictionary): the targets that accept them still have a file set
        # (Rust: an empty lib.rs), and empty files are files
        progs += ["options {\n    LittleEndian = true;\n}\n", "MetaData Types {\n    u32 Seq `s`,\n    char[4] Ccy `c`,\n}\n"]
        # keys at the top of their types: each target spells them its own way, from the same parsed pairs
        progs.append(BIG_KEYS)
        gens = harness.run_ops([{"op": "gen", "text": t, "order": ALL, "fresh": False} for t in progs])
        for t, g in zip(progs, gens):
            if "runs" not in g:
                continue
            usable = [r["lang"] for r in g["runs"] if "files" in r]
            if len(usable) < len(ALL) and "packet" in t:
                continue
            if not usable:
                continue
            f = os.path.join(d, "p.dsl")
            with open(f, "w") as fh:
                fh.write(t)
            for trial in range(3 if ctx.tier == "quick" else 8):
                sub = [x for x in usable if rng.random() < 0.5] or [rng.choice(usable)]
                if trial == 0:
                    sub = list(usable)        # every program once with every target at once
                # expected: generators run over one model in CLI order restricted to the subset
                # expected: what each requested generator produces ON ITS OWN from a freshly parsed model (the command runs them over
                # one model; that this makes no difference is C14 — here it is part of "exactly the generators' file set")
                exps = harness.run_ops([{"op": "gen", "text": t, "order": [x], "fresh": True} for x in ALL if x in sub])
                exp = {"runs": [r for e in exps for r in e.get("runs", [])]}
                want = {}
                for r in exp.get("runs", []):
                    for name, body in (r.get("files") or {}).items():
                        want[os.path.normpath(os.path.join(r["lang"], name))] = body.encode("utf-8")
                for implicit, stale, style in ((False, False, "short"), (True, False, "short"), (False, True, "short"),
                                               (True, False, "long-shuffled"), (False, False, "long-eq"), (True, False, "file-last"),
                                               (False, False, "relative"), (True, False, "relative")):
                    o = os.path.join(d, "out")
                    rm(o)
                    if stale:
                        # the output paths already exist and hold LONGER files (a previous compile of a bigger DSL)
                        for rel, body in want.items():
                            pth = os.path.join(o, rel)
                            os.makedirs(os.path.dirname(pth), exist_ok=True)
                            with open(pth, "wb") as fh:
                                fh.write(body + b"\n// stale tail of a previous, longer output\n" * 20)
                    if style == "relative":
                        # paths relative to the working directory, with `./` and a trailing slash
                        args = compile_args("short", implicit, "./p.dsl", [(lang, "out/%s/" % lang if k % 2 else "./out/" + lang) for k, lang in enumerate(sub)], rng)
                    else:
                        args = compile_args(style, implicit, f, [(lang, os.path.join(o, lang)) for lang in sub], rng)
                    before = set(os.listdir(d))
                    rc, out, err = checks_front.cli(cbin, args, d)
                    got = read_tree(o)
                    ctx.count("compile_runs")
                    stray = set(os.listdir(d)) - before - {"out"}
                    model_world(ctx, t, exp, {lang: lang for lang in sub}, {rel: body + b"\n// stale tail of a previous, longer output\n" * 20 for rel, body in want.items()} if stale else {}, rc, got, args)
                    if rc != 0 or got != want or stray:
                        bad = sorted(k for k in set(got) | set(want) if got.get(k) != want.get(k))
                        ctx.finding("compile/%s%s" % ("over-existing-files" if stale else "implicit" if implicit else "explicit", "" if style == "short" else "/" + style),
                                    "compile%s leaves files that differ from the generators' (exit %d)" % (" over existing, longer files" if stale else " without the sub-command word" if implicit else "", rc),
                                    {"dsl": t, "args": args, "differing": bad[:6], "stray": sorted(stray)[:5], "stdout": out[-400:]})
                    else:
                        ctx.count("compile_ok")
                # several targets into ONE directory: every target's files land there (in the CLI's order, should two targets
                # ever use one file name); and two targets into one directory, the others elsewhere
                for shared in ([x for x in ALL if x in sub], [x for x in ALL if x in sub][:2]):
                    if len(shared) < 2:
                        continue
                    o = os.path.join(d, "out")
                    rm(o)
                    dirs = {lang: os.path.join(o, "shared" if lang in shared else lang) for lang in sub}
                    want_s = {}
                    for r in exp.get("runs", []):
                        for name, body in (r.get("files") or {}).items():
                            want_s[os.path.normpath(os.path.join(os.path.relpath(dirs[r["lang"]], o), name))] = body.encode("utf-8")
                    args = compile_args("short", False, f, [(lang, dirs[lang]) for lang in sub], rng)
                    rc, out, err = checks_front.cli(cbin, args, d)
                    got = read_tree(o)
                    ctx.count("compile_runs")
                    model_world(ctx, t, exp, {lang: os.path.relpath(dirs[lang], o) for lang in sub}, {}, rc, got, args)
                    if rc != 0 or got != want_s:
                        bad = sorted(k for k in set(got) | set(want_s) if got.get(k) != want_s.get(k))
                        ctx.finding("compile/shared-directory", "compile with %s writing into one directory does not leave every generator's files there (exit %d)" % ("+".join(shared), rc),
                                    {"dsl": t, "args": args, "differing": bad[:8], "stdout": out[-400:]})
                    else:
                        ctx.count("compile_ok")
    finally:
        rm(d)
    if ctx.broken and not ctx.violations:
        ctx.finding("obligation/C16", "; ".join(ctx.broken)[:600], {"broken": ctx.broken}, False)
    ctx.sample({"entry_points": ["format -d", "format -f", "FormatPacketDslExport", "compile", "implicit compile"]})
    ctx.cov.update({"evaluations": ctx.cov.get("texts", 0) * 3 + ctx.cov.get("compile_runs", 0), "distinct_nontrivial": len(set(texts)),
                    "rule": "every text through format -d / format -f / the C export vs the library result; compile with and without the sub-command word for random flag subsets vs the generators' file maps"})
    return ctx.finish("proof")


TABLE = {"C13": run_c13, "C14": run_c14, "C16": run_c16}
