"""C09–C12: formatter, crash-freedom, diagnostics — hand-written Lean models tied by
differential runs (T3) + the properties evaluated directly on the real code."""
import json
import os
import random
import re
import subprocess

from common import CACHE, REPO, GOENV, Lock, build_harness, log, repo_hash, rm, scratch, sh
from framework import check_obligations
import dslgen
import faults
import harness
import leandrv
import pipeline
import textgen

SEP = {"COMMA", "SEMICOLON"}


# --------------------------------------------------------------------------- inputs

def doc_heavy_program(rng):
    """programs that exercise docs, key lists around the wrap width, string keys"""
    cfg = dslgen.Cfg(allow_char=True)
    p = dslgen.gen_program(rng, cfg)
    return p


def relayout_preserving(text, rng):
    """Same tokens, other white space; every comment keeps its relation to the preceding visible
    token (same line / later line), which is the premise of C10."""
    out = []
    line = 1
    prev_tok_line = None
    pos = 0
    items = []
    for m in textgen.TOKEN_RE.finditer(text):
        line += text.count("\n", pos, m.start())
        pos = m.start()
        t = m.group(0)
        if t.startswith("//"):
            items.append(("c", t, prev_tok_line is not None and prev_tok_line == line))
        else:
            items.append(("t", t, False))
            prev_tok_line = line + t.count("\n")
    first = True
    for kind, t, same in items:
        if kind == "c":
            if same:
                out.append(rng.choice([" ", "  ", "\t"]))
            else:
                out.append(rng.choice(["\n", "\n\n  ", " \n\t"]) if not first else rng.choice(["", "\n"]))
            out.append(t + "\n")
        else:
            if not first and not (out and out[-1].endswith("\n") and rng.random() < 0.5):
                out.append(rng.choice([" ", " ", "  ", "\t", "\n", "\n\n", " \n  "]))
            out.append(t)
        first = False
    return "".join(out) + rng.choice(["", "\n", "  \n"])


def fmt_texts(seed, n):
    rng = random.Random(seed * 7919 + 11)
    texts = list(pipeline.corpus_texts()) + list(textgen.FIXED_TEXTS)
    texts.append(open(os.path.join(REPO, "internal/parser/testdata/sample_binary.dsl"), encoding="utf-8").read())
    for _ in range(n):
        p = doc_heavy_program(rng)
        t = dslgen.render(p)
        texts.append(t)
        texts.append(relayout_preserving(t, rng))
        texts.append(textgen.relayout(t, rng, comments=0.15))
        texts.append(textgen.relayout(t, rng, comments=0.5))
        texts.append(textgen.mutate(t, rng))
    return texts


def sig_of(tokens):
    """what C09 says must be retained: declarations/attributes/docs (visible tokens minus the optional
    separators) and the comments, each in order"""
    vis = [(t[0], t[1]) for t in tokens if t[4] == 0 and t[0] not in SEP]
    com = [t[1] for t in tokens if t[4] != 0]
    return vis, com


def files_of(genres):
    if "runs" not in genres:
        return None
    out = {}
    for r in genres["runs"]:
        if "files" not in r:
            return None
        out[r["lang"]] = r["files"]
    return out


# causes the formatter model can name for a loss (each is a DESIGN §9 finding); unconsumed input, lexical junk and
# object-field docs used to be causes too and were repaired by fix: commits — a loss of that kind is now unexplained
CAUSES = [("mixedLists", "keys-reordered/mixed-list"), ("multilineDocs", "doc-reindented/multiline"),
          ("lostNeverRead", "comment-lost/gap-never-read"), ("lostOtherLine", "comment-lost/right-gap-other-line")]


def causes_of(info):
    return [name for key, name in CAUSES if info.get(key, 0)]


def year_free(files):
    return files


# --------------------------------------------------------------------------- C09 / C10

def run_fmt(ctx):
    check_obligations(ctx, ctx.prop)
    n = 60 if ctx.tier == "quick" else 1200
    texts = fmt_texts(ctx.seed, n)
    ALL = pipeline.ALL_TARGETS
    real = harness.run_ops([{"op": "format", "text": t} for t in texts])
    info = leandrv.run_ops([{"op": "fmtinfo", "text": t} for t in texts])
    # second round on the formatted texts
    ys = [r.get("out") if r.get("ok") else None for r in real]
    idx = [i for i, y in enumerate(ys) if y is not None]
    real2 = dict(zip(idx, harness.run_ops([{"op": "format", "text": ys[i]} for i in idx])))
    info2 = dict(zip(idx, leandrv.run_ops([{"op": "fmtinfo", "text": ys[i]} for i in idx])))
    tokx = dict(zip(idx, harness.run_ops([{"op": "tokens", "text": texts[i]} for i in idx])))
    toky = dict(zip(idx, harness.run_ops([{"op": "tokens", "text": ys[i]} for i in idx])))
    treey = dict(zip(idx, harness.run_ops([{"op": "tree", "text": ys[i]} for i in idx])))
    if ctx.prop == "C09":
        treex = dict(zip(idx, harness.run_ops([{"op": "tree", "text": texts[i]} for i in idx])))
        genx = dict(zip(idx, harness.run_ops([{"op": "gen", "text": texts[i], "order": ALL, "fresh": True} for i in idx])))
        geny = dict(zip(idx, harness.run_ops([{"op": "gen", "text": ys[i], "order": ALL, "fresh": True} for i in idx])))
    else:
        rng = random.Random(ctx.seed + 5)
        rel = {i: relayout_preserving(texts[i], rng) for i in idx}
        realr = dict(zip(idx, harness.run_ops([{"op": "format", "text": rel[i]} for i in idx])))
    for i, t in enumerate(texts):
        a, b = real[i], info[i]
        ka = "panic" if ("panic" in a or "fatal" in a) else ("ok" if a.get("ok") else "err")
        kb = "panic" if str(b.get("result", "")).startswith("panic") else b.get("result")
        ctx.count("texts")
        ctx.count("real:" + ka)
        drift = ka != kb or (ka == "ok" and a["out"] != b.get("out"))
        if ka == "panic":
            ctx.count("crashes_left_to_C11")
            continue
        if ka == "err":
            if ctx.prop == "C09" and a.get("out") != t:
                ctx.finding("fmt/error-not-identity", "on a syntax error the returned text differs from the input", {"text": t, "returned": a.get("out")})
            if drift:
                ctx.finding("t3/format-drift", "formatter model and real formatter disagree on whether the text has a syntax error",
                            {"text": t, "real": a, "model": b, "broken": "correspondence T3/format"}, False)
            continue
        y = a["out"]
        cz = causes_of(b)
        problems = []
        if ctx.prop == "C09":
            # (0) the formatter only accepts what the grammar accepts: the parser of the SAME tree, with its error listeners on
            #     lexer and parser (ParseAll, what `compile` uses), and the Lean lexer/parser must not both call the text invalid
            tx = treex[i]
            if tx.get("errors", 0) != 0 and kb == "err":
                problems.append("a syntactically invalid text (rejected by the tree's own parser with %d error(s) and by the grammar model) was formatted instead of "
                                "being returned unchanged with an error" % tx.get("errors"))
                cz = []
            # (1) parses, consumes everything  (2) retains content  (3) same compiled output
            ty = treey[i]
            if ty.get("errors", 1) != 0:
                problems.append("formatted text has syntax errors")
            elif ty.get("visible") != ty.get("consumed") and not b.get("leftover"):
                problems.append("formatted text is only partly consumed by the parser")
            sx, sy = sig_of(tokx[i].get("tokens") or []), sig_of(toky[i].get("tokens") or [])
            if sx[0] != sy[0]:
                problems.append("declarations/attributes/docs not retained")
            if sx[1] != sy[1]:
                problems.append("comments not retained")
            fx, fy = files_of(genx[i]), files_of(geny[i])
            if fx is not None and fx != fy:
                problems.append("compiled output differs")
            elif fx is not None:
                ctx.count("compile_equal")
        else:
            a2 = real2[i]
            if not a2.get("ok") or a2.get("out") != y:
                problems.append("not idempotent")
                cz = ["not-idempotent/" + c for c in causes_of(info2[i])]
            ar = realr[i]
            if b.get("lexErrors"):
                pass   # the text contains characters the lexer rejects: "same tokens" cannot be arranged for it
            elif not ar.get("ok") or ar.get("out") != y:
                # a relayout differs: only explicable by something that depends on line structure inside a token
                problems.append("relayout formats differently")
                if b.get("multilineDocs"):
                    cz = cz + ["relayout/multiline-doc"]
                else:
                    cz = ["relayout/" + c for c in []]
        if not problems:
            ctx.count("texts_ok")
            if not drift:
                ctx.sample({"text": t[:300], "formatted": y[:300]}, 3)
        else:
            ctx.count("texts_with_property_failure")
            if not cz:
                ctx.finding("fmt/unexplained:" + problems[0], "; ".join(problems), {"text": t, "formatted": y, "second_pass": real2.get(i), "model": b})
            for c in cz:
                if ctx.prop == "C09" and c.startswith("not-idempotent"):
                    continue
                ctx.finding("fmt/" + c, "; ".join(problems), {"text": t, "formatted": y, "second_pass": (real2.get(i) or {}).get("out"), "cause": c})
        if drift:
            ctx.finding("t3/format-drift", "formatter model and real formatter print different text",
                        {"text": t, "real": a.get("out"), "model": b.get("out"), "broken": "correspondence T3/format",
                         "property_fails_on_real": problems}, bool(problems))
    if ctx.prop == "C10":
        # the same two claims through the entry point users format files with: `format -f` of a spread-out layout (so that the
        # formatted text is SHORTER than the file) leaves exactly the canonical text, and a second `format -f` changes nothing
        hbin, cbin = build_harness()
        d = scratch()
        try:
            rng2 = random.Random(ctx.seed + 11)
            picked = [i for i in idx if not info[i].get("lexErrors")][: (12 if ctx.tier == "quick" else 150)]
            for i in picked:
                want = ys[i]
                wide = textgen.relayout(texts[i], rng2) + "\n\n\n"
                r0 = harness.run_ops([{"op": "format", "text": wide}])[0]
                if not r0.get("ok"):
                    continue
                f = os.path.join(d, "w.dsl")
                with open(f, "w", encoding="utf-8", newline="") as fh:
                    fh.write(wide)
                rc1, _, _ = cli(cbin, ["format", "-f", f], d)
                first = open(f, encoding="utf-8", newline="").read()
                rc2, _, _ = cli(cbin, ["format", "-f", f], d)
                second = open(f, encoding="utf-8", newline="").read()
                ctx.count("format_f_files")
                if rc1 != 0 or first != r0["out"]:
                    ctx.finding("fmt/file/not-canonical", "`format -f` of a re-laid-out file leaves a text that is not the formatter's result (exit %d)" % rc1,
                                {"text": wide, "file_after": first[:3000], "library": r0["out"][:3000]})
                elif rc2 != 0 or second != first:
                    # only a claim when the library result itself is stable (known comment findings are not this check's business)
                    r1 = harness.run_ops([{"op": "format", "text": first}])[0]
                    if r1.get("ok") and r1.get("out") == first:
                        ctx.finding("fmt/file/not-idempotent", "a second `format -f` changes the file (exit %d)" % rc2,
                                    {"text": wide, "first": first[:3000], "second": second[:3000]})
        finally:
            rm(d)
    if ctx.broken and not ctx.violations:
        ctx.finding("obligation/" + ctx.prop, "; ".join(ctx.broken)[:500], {"broken": ctx.broken}, False)
    ctx.cov.update({"evaluations": ctx.cov.get("texts", 0), "distinct_nontrivial": len(set(texts)),
                    "rule": "seeded programs in default layout, whitespace relayouts with/without inserted comments, token-level mutations, fixed edge texts"})
    return ctx.finish("proof")


# --------------------------------------------------------------------------- C11

def build_so():
    """libpacketdsl.so from the current tree (C export), cached per tree"""
    with Lock("so"):
        stamp = os.path.join(CACHE, "so.stamp")
        so = os.path.join(CACHE, "libpacketdsl.so")
        key = repo_hash()
        if os.path.exists(stamp) and open(stamp).read() == key and os.path.exists(so):
            return so
        for f in (so, stamp, os.path.join(CACHE, "libpacketdsl.h")):
            if os.path.exists(f):
                os.remove(f)
        p = sh(["go", "build", "-buildmode=c-shared", "-o", so, "./cmd/"], cwd=REPO, env=GOENV, check=False, timeout=600)
        if p.returncode != 0:
            log("c-shared build failed: " + p.stderr[-500:])
            return None
        with open(stamp, "w") as fh:
            fh.write(key)
        return so


SO_RUNNER = r'''
import ctypes, sys, json
lib = ctypes.CDLL(sys.argv[1])
lib.FormatPacketDslExport.restype = ctypes.c_char_p
lib.FormatPacketDslExport.argtypes = [ctypes.c_char_p]
data = open(sys.argv[2], "rb").read()
r = lib.FormatPacketDslExport(data)
sys.stdout.buffer.write(b"RESULT:" + (r or b""))
'''


SO_SESSION = r'''
import ctypes, sys, json
lib = ctypes.CDLL(sys.argv[1])
lib.FormatPacketDslExport.restype = ctypes.c_char_p
lib.FormatPacketDslExport.argtypes = [ctypes.c_char_p]
texts = json.load(open(sys.argv[2]))
for i, t in enumerate(texts):
    r = lib.FormatPacketDslExport(t.encode("utf-8", "surrogatepass"))
    sys.stdout.write("CALL %d %d\\n" % (i, len(r or b"")))
    sys.stdout.flush()
print("SESSION-END")
'''


def so_session(so, texts, d):
    """ONE host process calling the export many times (an editor plug-in): every call must return.
    -> number of calls that returned, or None when all did"""
    f = os.path.join(d, "session.json")
    with open(f, "w") as fh:
        json.dump(texts, fh)
    try:
        p = subprocess.run(["python3", "-c", SO_SESSION, so, f], capture_output=True, timeout=600)
        out = p.stdout.decode("utf-8", "replace")
    except subprocess.TimeoutExpired as e:
        out = (e.stdout or b"").decode("utf-8", "replace")
    if "SESSION-END" in out:
        return None
    return out.count("CALL ")


SO_SESSION_RESULTS = r'''
import ctypes, sys, json
lib = ctypes.CDLL(sys.argv[1])
lib.FormatPacketDslExport.restype = ctypes.c_char_p
lib.FormatPacketDslExport.argtypes = [ctypes.c_char_p]
for t in json.load(open(sys.argv[2])):
    r = lib.FormatPacketDslExport(t.encode("utf-8"))
    print("CALL " + json.dumps((r or b"").decode("utf-8", "replace")), flush=True)
print("SESSION-END", flush=True)
'''


def so_session_results(so, texts, d):
    """ONE host process, many calls: the answer of every call that returned (a history-dependent export shows only here)"""
    f = os.path.join(d, "session.json")
    with open(f, "w") as fh:
        json.dump(texts, fh)
    try:
        p = subprocess.run(["python3", "-c", SO_SESSION_RESULTS, so, f], capture_output=True, timeout=900)
        out = p.stdout.decode("utf-8", "replace")
    except subprocess.TimeoutExpired as e:
        out = (e.stdout or b"").decode("utf-8", "replace")
    res = []
    for l in out.split("\n"):
        if l.startswith("CALL "):
            try:
                res.append(json.loads(l[5:]))
            except ValueError:
                res.append(None)
    return res, "SESSION-END" in out


def so_format(so, text_bytes, d):
    f = os.path.join(d, "in.dsl")
    with open(f, "wb") as fh:
        fh.write(text_bytes)
    try:
        p = subprocess.run(["python3", "-c", SO_RUNNER, so, f], capture_output=True, timeout=300)
    except subprocess.TimeoutExpired:
        return {"hang": True}
    if b"RESULT:" in p.stdout:
        return {"result": p.stdout.split(b"RESULT:", 1)[1].decode("utf-8", "replace")}
    return {"crash": p.returncode, "stderr": p.stderr[-300:].decode("utf-8", "replace")}


CLI_HANGS = [0]     # invocations of this run that did not end: the first gets every benefit of the doubt, the later ones less


def cli(cbin, args, cwd, timeout=150):
    if CLI_HANGS[0]:
        timeout = min(timeout, 60 if CLI_HANGS[0] < 3 else 15)
    try:
        p = subprocess.run([cbin] + args, cwd=cwd, capture_output=True, timeout=timeout)
        return p.returncode, p.stdout.decode("utf-8", "replace"), p.stderr.decode("utf-8", "replace")
    except subprocess.TimeoutExpired:
        CLI_HANGS[0] += 1
        return -9, "", "timeout"


def crash_inputs(seed, n):
    rng = random.Random(seed * 31 + 3)
    items = [("probe:" + name, t) for name, t in faults.CRASH_PROBES]
    items += [("fixed", t) for t in textgen.FIXED_TEXTS]
    for _ in range(n):
        p = dslgen.gen_program(rng, dslgen.Cfg(allow_char=True, odd_names=True, unique_inline=False))
        t = dslgen.render(p)
        items.append(("valid", t))
        items.append(("mutated", textgen.mutate(t, rng)))
        items.append(("truncated", t[:rng.randrange(len(t))]))
        cls = rng.choice(faults.FAULT_CLASSES)
        r = faults.inject(dslgen.render(dslgen.gen_program(rng)), cls, rng)
        if r:
            items.append(("fault:" + cls, r[0]))
    items.append(("binary", "".join(chr(rng.randrange(1, 256)) for _ in range(200))))
    return items


def run_c11(ctx):
    check_obligations(ctx, "C11")
    n = 40 if ctx.tier == "quick" else 800
    items = crash_inputs(ctx.seed, n)
    texts = [t for _, t in items]
    ALL = pipeline.ALL_TARGETS
    fr = harness.run_ops([{"op": "format", "text": t} for t in texts])
    mr = harness.run_ops([{"op": "model", "text": t} for t in texts])
    gr = harness.run_ops([{"op": "gen", "text": t, "order": ALL, "fresh": True} for t in texts])
    gs = harness.run_ops([{"op": "gen", "text": t, "order": ALL, "fresh": False} for t in texts])
    fm = leandrv.run_ops([{"op": "fmtinfo", "text": t} for t in texts])
    mm = leandrv.run_ops([{"op": "model", "text": t} for t in texts])
    for i, (kind, t) in enumerate(items):
        ctx.count("inputs")
        rep = {"text": t, "input_kind": kind}
        # formatter
        a, b = fr[i], fm[i]
        real_p = "panic" in a or "fatal" in a
        model_p = str(b.get("result", "")).startswith("panic")
        if real_p:
            cls = b.get("result", "panic:unmodelled").split(":", 1)[1] if model_p else "unmodelled"
            ctx.finding("format/panic/" + cls, "FormatPacketDsl panics (%s at %s)" % (a.get("panic", a.get("fatal")), a.get("panic_at")), dict(rep, real=a))
        if real_p != model_p:
            ctx.finding("t3/format-crash-drift", "formatter model and real formatter disagree about a crash", dict(rep, real=a, model=b, broken="correspondence T3/format"), real_p)
        # visitor
        a, b = mr[i], mm[i]
        real_p = "panic" in a or "fatal" in a
        model_p = "panic" in b
        if real_p:
            site = b.get("site", "unmodelled") if model_p else "unmodelled"
            ctx.finding("visit/panic/" + re.sub(r"[^A-Za-z0-9_.()*-]+", "_", site)[:60],
                        "the visitor panics (%s at %s)" % (a.get("panic", a.get("fatal")), a.get("panic_at")), dict(rep, real=a))
        if real_p != model_p or (real_p and a.get("panic") != b.get("panic")):
            ctx.finding("t3/visit-crash-drift", "visitor model and real visitor disagree about a crash", dict(rep, real=a, model=b, broken="correspondence T3/model"), real_p)
        if real_p:
            continue   # the visitor already crashed: the generators never get a model
        # generators (fresh model per target, and the CLI's shared model)
        for res, mode in ((gr[i], "fresh"), (gs[i], "shared")):
            if "fatal" in res:
                ctx.finding("gen/fatal/" + res["fatal"], "the generators abort the process (%s)" % res["fatal"], dict(rep, mode=mode, stderr=res.get("stderr")))
                continue
            if "panic" in res and res.get("stage") == "parse":
                continue   # reported under visit/
            for r in res.get("runs", []):
                if "panic" in r:
                    ctx.finding("gen/panic/%s/%s" % (r["lang"], r.get("panic_at", "?")),
                                "generator %s panics (%s)" % (r["lang"], r.get("panic_msg", "")[:80]), dict(rep, mode=mode, run={k: v for k, v in r.items() if k != "files"}))
                else:
                    ctx.count("generator_runs_ok")
    # entry points: CLI and the C library, on a subset
    hbin, cbin = build_harness()
    so = build_so()
    d = scratch()
    try:
        sub = [x for x in items if x[0].startswith("probe") or x[0] == "fixed"][:40] + items[-12:]
        # texts the visitor diagnoses, in the layouts a diagnostic printer can trip over: no final newline with a last line longer than
        # every other one (positions taken from the end of input point past the end of shorter lines), CRLF, a tab-indented copy
        tail = "// end of the protocol definition " + "-" * 160
        flt = [x for x in items if x[0].startswith("fault:")][: (12 if ctx.tier == "quick" else 200)]
        for kind, t in flt:
            sub.append((kind + "/no-final-newline", t.rstrip("\n") + tail))
            sub.append((kind + "/crlf", t.replace("\n", "\r\n")))
            sub.append((kind + "/tabs", t.replace("    ", "\t").rstrip("\n")))
        for kind, t in sub:
            f = os.path.join(d, "x.dsl")
            with open(f, "w", encoding="utf-8") as fh:
                fh.write(t)
            for args, name in ((["format", "-f", f], "cli-format-f"), (["compile", "-f", f, "-g", d + "/o/go", "-r", d + "/o/rs", "-j", d + "/o/java", "-p", d + "/o/py", "-c", d + "/o/cpp", "-l", d + "/o/lua"], "cli-compile")):
                with open(f, "w", encoding="utf-8") as fh:
                    fh.write(t)
                rc, out, err = cli(cbin, args, d)
                ctx.count("cli_runs")
                if rc == -9:
                    ctx.finding("entry/%s/hang" % name, "the command does not terminate", {"text": t, "args": args})
                elif "panic:" in err or "goroutine " in err or "fatal error" in err:
                    m = re.search(r"fin-protoc/internal/\w+\.([^\n(]+(?:\([^)]*\))?[^\n(]*)\(", err)
                    site = "stack-overflow" if "stack overflow" in err or "stack exceeds" in err else (m.group(1) if m else "?")
                    ctx.finding("entry/%s/%s" % (name, re.sub(r"[^A-Za-z0-9_.()*-]+", "_", site)[:60]), "the command line aborts with a Go panic", {"text": t, "args": args, "stderr": err[:600]})
            if so:
                r = so_format(so, t.encode("utf-8", "surrogatepass") if isinstance(t, str) else t, d)
                ctx.count("so_runs")
                if "crash" in r or "hang" in r:
                    ctx.finding("entry/so-format/abort", "FormatPacketDslExport kills the host process", {"text": t, "result": r})
        if so:
            # the same library inside ONE long-lived host: valid and ill-formed texts alternating, many calls
            session = []
            bad_texts = [t for k, t in items if isinstance(t, str) and k.startswith(("mutated", "truncated", "fixed"))][:30]
            good = "root packet A {\n    u8 x,\n}\n"
            for t in bad_texts:
                session += [t, good]
            ctx.count("so_session_calls", len(session))
            returned = so_session(so, session, d)
            if returned is not None:
                ctx.finding("entry/so-format/session-hang", "FormatPacketDslExport stops returning after %d calls in one host process (%d texts sent, ill-formed and "
                            "well-formed alternating)" % (returned, len(session)), {"texts": session[:returned + 1][-6:], "calls_returned": returned})
        if so is None:
            ctx.assumptions.append("libpacketdsl.so could not be built in this run: the C export was not exercised")
    finally:
        rm(d)
    # "never hang" for the generators: a packet that holds the next one twice, d levels deep, is a valid protocol of d + 1 packets.
    # A generator that expands a referenced packet once per REFERENCE prints 2^d of something; measured on the size of the output
    # at two small depths (deterministic), not on time: linear growth is x1.5 from depth 8 to 12, doubling per level is x16.
    def pairs(n):
        return ("root packet Q0 {\n    Q1 bid,\n    Q1 ask,\n}\n" +
                "".join("packet Q%d {\n    Q%d bid,\n    Q%d ask,\n}\n" % (i, i + 1, i + 1) for i in range(1, n)) + "packet Q%d {\n    u8 x,\n}\n" % n)
    sizes = {}
    for depth in (8, 12):
        g = harness.run_ops([{"op": "gen", "text": pairs(depth), "order": pipeline.ALL_TARGETS, "fresh": True}])[0]
        for r in g.get("runs", []):
            if "files" in r:
                sizes.setdefault(r["lang"], {})[depth] = sum(len(v) for v in r["files"].values())
    for lang, sz in sorted(sizes.items()):
        ctx.count("growth_measured")
        if 8 in sz and 12 in sz and sz[12] > 6 * sz[8]:
            ctx.finding("gen/output-exponential-in-depth/%s" % lang,
                        "the %s output for a chain of packets that hold their successor twice grows x%.1f from depth 8 to depth 12 (%d -> %d bytes): "
                        "at depth 40 the compilation does not end" % (lang, sz[12] / sz[8], sz[8], sz[12]),
                        {"dsl": pairs(12), "target": lang, "sizes": sz})
    if ctx.broken and not ctx.violations:
        ctx.finding("obligation/C11", "; ".join(ctx.broken)[:500], {"broken": ctx.broken}, False)
    ctx.sample({"input_kinds": sorted({k for k, _ in items})[:20]})
    ctx.cov.update({"evaluations": len(items), "distinct_nontrivial": len(set(texts)),
                    "rule": "crash probes (one per optional grammar element / dangling reference / cycle), fault injections, valid programs, mutations, truncations, binary junk; through library, CLI and C export"})
    return ctx.finish("proof")


# --------------------------------------------------------------------------- C12

def strip_cols(x):
    if isinstance(x, dict):
        return {k: strip_cols(v) for k, v in x.items() if k != "col"}
    if isinstance(x, list):
        if len(x) == 4 and isinstance(x[0], str) and isinstance(x[2], int) and isinstance(x[3], int):
            return x[:3]
        if len(x) == 3 and isinstance(x[0], int) and isinstance(x[2], str):
            return [x[0], x[2]]
        return [strip_cols(v) for v in x]
    return x


def run_c12(ctx):
    import checks_driver
    checks_driver.regenerate_facts(ctx)     # T1: option / alias / default tables rewritten from the current source
    check_obligations(ctx, "C12")
    n = 40 if ctx.tier == "quick" else 600
    rng = random.Random(ctx.seed * 131 + 7)
    items = []   # (class or None, text, line)
    for _ in range(n):
        cfg = dslgen.Cfg()
        t = dslgen.render(dslgen.gen_program(rng, cfg))
        items.append((None, t, None))
        # the same well-formed program written on ONE line (line numbers are no positions: every member then shares its line
        # with every other one), and with every packet on a line of its own
        if "//" not in t:
            import textgen
            items.append((None, " ".join(textgen.tokens_of(t)) + "\n", None))
            if rng.random() < 0.5:
                items.append((None, re.sub(r"\n(?!(root |packet |options|MetaData))", " ", t), None))
        for cls in faults.FAULT_CLASSES:
            r = faults.inject(t, cls, rng)
            if r:
                items.append((cls, r[0], r[1]))
                if rng.random() < 0.25:
                    # the same ill-formed text as a file with CRLF line ends (and, sometimes, blank lines on top): same line numbers
                    k = rng.choice([0, 0, 2])
                    items.append((cls, "\r\n" * k + r[0].replace("\n", "\r\n"), r[1] + k))
    items += [("dup_match_key", t, line) for t, line in faults.dup_key_programs()]
    items += [("bad_option_value", t, line) for t, line in faults.bad_option_programs()]
    for fn in ("shadow_suffix.dsl", "shadow_prefix.dsl"):
        items.append((None, open(os.path.join(os.path.dirname(os.path.dirname(os.path.abspath(__file__))), "corpus", "dsl", fn)).read(), None))
    items.append((None, faults.KEYWORD_PREFIX_PROGRAM, None))
    items.append((None, " ".join(faults.KEYWORD_PREFIX_PROGRAM.split()) + "\n", None))
    # documented option values, one at a time
    for k, vals in (("LittleEndian", ["true", "false"]), ("StringPrefixLenType", ["u8", "u16", "u32", "u64"]), ("ArrayPrefixLenType", ["u8", "u16", "u32", "u64"]),
                    ("FixedStringPadFromLeft", ["true", "false"]), ("FixedStringPadChar", ["'0'", "' '", "'\\x00'"]),
                    ("JavaPackage", ['"a.b"']), ("GoPackage", ['"p"']), ("GoModule", ['"m/p"'])):
        for v in vals:
            items.append((None, "options {\n    %s = %s;\n}\n\nroot packet P {\n    char[4] a,\n    u8 b,\n}\n" % (k, v), ("option", k, v)))
    texts = [t for _, t, _ in items]
    real = harness.run_ops([{"op": "model", "text": t} for t in texts])
    mod = leandrv.run_ops([{"op": "model", "text": t} for t in texts])
    hbin, cbin = build_harness()
    d = scratch()
    try:
        for i, (cls, t, line) in enumerate(items):
            a, b = real[i], mod[i]
            ctx.count("programs")
            rep = {"text": t, "fault": cls, "line": line}
            # T3
            ra = "synerr" if a.get("synerr") else ("panic" if ("panic" in a or "fatal" in a) else "ok")
            rb = "synerr" if b.get("synerr") else ("panic" if "panic" in b else "ok")
            same = ra == rb and (ra != "ok" or strip_cols(a["model"]) == strip_cols(b["model"]))
            if not same:
                ctx.finding("t3/model-drift", "visitor model and real visitor disagree", dict(rep, real=a, model=b, broken="correspondence T3/model"), False)
            diags = a["model"]["diags"] if ra == "ok" else []
            if cls is None:
                if ra != "ok" or diags:
                    what = ("%s=%s" % (line[1], line[2])) if isinstance(line, tuple) else "program"
                    sig = "false-reject/" + (("option/%s=%s" % (line[1], line[2])) if isinstance(line, tuple) else "well-formed-program")
                    ctx.finding(sig, "a well-formed DSL using documented constructs is rejected (%s): %s" % (what, diags or ra), rep)
                else:
                    ctx.count("well_formed_accepted")
                continue
            ctx.count("faults/" + cls)
            if ra == "panic":
                ctx.finding("crash/" + cls, "an ill-formed DSL crashes the compiler instead of being diagnosed", dict(rep, real=a))
                continue
            # the fault-free program has no diagnostic at all, so whatever is reported for this text is about the injected fault.
            # The wording is the maintainers' to choose: a diagnostic AT the offending line counts whatever it says; the current
            # wording is only used to recognise a diagnostic that was issued for the offence but at another line.
            want = faults.EXPECT_MSG[cls]
            at_line = [x for x in diags if x[0] == line]
            hit = at_line or [x for x in diags if want in x[2]]
            if not hit:
                ctx.finding("diag-missing/" + cls, "ill-formed DSL (%s at line %s) is accepted without a diagnostic naming the offence" % (cls, line), dict(rep, diags=diags))
                continue
            if not at_line:
                ctx.finding("diag-line/" + cls, "diagnostic names line %s, the offending declaration is at line %s" % ([x[0] for x in hit], line), dict(rep, diags=diags))
                continue
            ctx.count("faults_diagnosed")
            ctx.sample({"fault": cls, "line": line, "diagnostic": hit[0][2]}, 4)
        # the command line: non-zero exit and nothing written (a subset)
        for cls, t, line in [x for x in items if x[0] in ("dup_packet", "unknown_option", "second_root", "unknown_packet_ref", "length_twice")][:12]:
            f = os.path.join(d, "x.dsl")
            with open(f, "w", encoding="utf-8") as fh:
                fh.write(t)
            o = os.path.join(d, "out")
            rm(o)
            p = subprocess.run([cbin, "compile", "-f", f, "-g", o + "/go", "-r", o + "/rs"], cwd=d, capture_output=True, text=True, timeout=300)
            ctx.count("cli_rejections_checked")
            wrote = os.path.isdir(o) and any(files for _, _, files in os.walk(o))
            if p.returncode == 0 or wrote:
                ctx.finding("cli/accepts/" + cls, "compile exits %d and %s output files for an ill-formed DSL" % (p.returncode, "writes" if wrote else "writes no"),
                            {"text": t, "stdout": p.stdout[-500:]})
            elif ("line %d" % line) not in p.stdout:
                ctx.finding("cli/no-line/" + cls, "compile rejects the DSL but does not name line %d" % line, {"text": t, "stdout": p.stdout[-500:]})
    finally:
        rm(d)
    if ctx.broken and not ctx.violations:
        ctx.finding("obligation/C12", "; ".join(ctx.broken)[:500], {"broken": ctx.broken}, False)
    ctx.cov.update({"evaluations": len(items), "distinct_nontrivial": len(set(texts)),
                    "rule": "well-formed seeded programs + one injected fault of each class at a seeded site + every documented option value"})
    return ctx.finish("proof")


TABLE = {"C09": run_fmt, "C10": run_fmt, "C11": run_c11, "C12": run_c12}
