"""Text-level generators: relayouts with comments, malformed streams."""
import random
import re

import dslgen

TOKEN_RE = re.compile(r'''`[^`]*`|"(?:[^"\\\r\n]|\\.)*"|//[^\r\n]*|@calculatedFrom\(|@lengthOf\(|@tag\(|@leftPad|@rightPad|'0'|' '|'\\x00'|zchar\[|char\[\]|char\[|[A-Za-z_][A-Za-z_0-9]*|[0-9]+|\S''')


def tokens_of(text):
    return TOKEN_RE.findall(text)


def relayout(text, rng, comments=0.0, keep_comment_lines=True):
    """Re-emit the same tokens with random white space.  A `//` comment must be followed by
    a newline.  With comments>0, fresh comments are inserted at random token boundaries."""
    toks = tokens_of(text)
    out = []
    n = 0
    for t in toks:
        out.append(t)
        if t.startswith("//"):
            out.append("\n")
        r = rng.random()
        if comments and r < comments:
            n += 1
            # a third of the inserted comments repeat a text used before (a `// reserved`
            # on several fields is ordinary): comments are distinct tokens, not distinct texts
            c = rng.choice(["// reserved", "//", "// c1", "// 注释 – ünïcode", "//\tTAB and trailing blanks   "]) if rng.random() < 0.4 else "// c%d" % n
            if rng.random() < 0.5:
                out.append(" " + c + "\n")
            else:
                out.append("\n" + c + "\n")
        out.append(rng.choice([" ", " ", "  ", "\t", "\n", "\n\n", " \n  ", "\r\n", " \r\n\t"]))
    return "".join(out)


JUNK = ["$", "#", "?", "@", "@lengthOf (", "'a'", '"unterminated', "`open", "/", "/*x*/", "\x00", "\ufeff", "é", "char [", "u8x", "0x1F", "''",
        "packet", "root", "}", "{", ",", ";", "=", "match", "as", "repeat", "MetaData", "options", "123", ":", "[", "]", "(", ")", "true", "string", "char[]", "char[", "zchar["]


def mutate(text, rng):
    """One token-level edit of a text (delete / duplicate / swap / replace / insert / truncate)."""
    toks = tokens_of(text)
    if not toks:
        return rng.choice(JUNK)
    i = rng.randrange(len(toks))
    k = rng.choice(["del", "dup", "swap", "rep", "ins", "trunc", "junk"])
    if k == "del":
        del toks[i]
    elif k == "dup":
        toks.insert(i, toks[i])
    elif k == "swap" and i + 1 < len(toks):
        toks[i], toks[i + 1] = toks[i + 1], toks[i]
    elif k == "rep":
        toks[i] = rng.choice(JUNK)
    elif k == "ins":
        toks.insert(i, rng.choice(JUNK))
    elif k == "trunc":
        toks = toks[:i]
    else:
        toks.insert(i, rng.choice(JUNK[:17]))
    s = ""
    for t in toks:
        s += t + ("\n" if t.startswith("//") else " ")
    return s


FIXED_TEXTS = ["", " ", "\n", "// only a comment", "// c\n", "zzz packet A { u8 x, }", "packet A { u8 x, } 123 packet B { }",
               "packet A { }", "packet A { u8 }", "options { }", "MetaData M { }", "packet", "root", "root packet", "{", "}",
               "packet A { @leftPad() char[3] x, }", "packet A { @leftPad(' ') char[3] x, }", "packet A { match k as m { } , }",
               "packet A { u8 k, match k as m { 1 : B } , } packet B { }", "packet A { B { u8 x, }, }", "packet A { B { }, }",
               "packet A { repeat u8 x @lengthOf(y), }", "packet A { x @lengthOf(y), x2 @calculatedFrom(\"a\") `d`, }",
               "packet A { u8 x `doc` , }", "options { A = char[3]; B = \"s\" C = 5; D = '0' E = true; F = u8 G = string; }",
               "MetaData M { u8 a `d`, A b `e`, char[3] c, zchar[4] d `x`, string e, char[] f, }",
               "packet A { match k as m { [1,2,\"a\"] : B, \"x\" : C 3 : D } , }", "packet A { X Y `d`, repeat X, repeat X Y, X, }",
               "packet A { @tag(5) @lengthOf(b) @calculatedFrom(\"x\") @rightPad('\\x00') u8 x, }",
               "root packet A {\n    u8 k,\n    match k as m {\n        [\"a\", 1, \"b\", 2] : B,\n    },\n}\npacket B {\n}\n",
               "root packet A {\n    u8 x `first line\nsecond line`,\n    B b `doc of an object field`,\n}\npacket B {\n}\n",
               "// leading\nroot packet A { // after brace\n    // before attr\n    @tag(1)\n    u8 x, // same line\n    // before rbrace\n}\n// trailing\n",
               "root packet A {\n    u8 k,\n    match k as m {\n        1 : B, // after last pair\n    },\n}\npacket B {\n}\n",
               "MetaData M {\n    // inside metadata\n    u8 a `d`, // right of entry\n}\n",
               # a comment on the line of the closing brace of the LAST definition, for each kind of definition
               "packet A {\n    u8 x,\n} // after the last packet\n", "options {\n    LittleEndian = true;\n} // after options\n",
               "packet A {\n    M x,\n}\nMetaData M {\n    u8 a,\n} // after metadata\n",
               "MetaData M {\n    u8 a,\n} // after metadata, not last\npacket A {\n}\n",
               "packet A {\n}\noptions {\n    LittleEndian = true;\n} // after options, last\n// and one more line\n",
               # comment texts repeat; comments are distinct tokens
               "// reserved\nroot packet A {\n    u8 a, // reserved\n    u8 b, // reserved\n    // reserved\n    u8 c, //\n    u8 d, //\n}\n// reserved\n",
               "root packet A {\n    u16 len @lengthOf(b) `at most 100% of %d, %s`,\n    B b `50%% of %v`,\n    u32 ck @calculatedFrom(\"CRC32\") `%x %!`,\n}\npacket B {\n    @tag(1)\n    u8 x `%`,\n}\nMetaData M {\n    u8 m `100%`,\n}\n",
               # CRLF line ends, no newline at the end, UTF-8 in docs and comments, a byte-order mark
               "root packet A {\r\n    u8 x `说明 é`, // 注释\r\n    // own line\r\n    string s,\r\n}\r\npacket B {\r\n}",
               "// only CRLF\r\npacket A {\r\n}\r\n", "packet A {\n    u8 x `no newline at the end`,\n} // end",
               "// fill ratio 0-100%! %d of %s, 50%% \\n\n// second\nroot packet Order {\n    u32 qty `filled %d of total, in %`, // 100%\n    string note `tab\there \"quoted\" $HOME`,\n}\n"]
