"""C01–C06: properties of the emitted encoders/decoders, decided by the verified validators
on the IR extracted from the text the REAL generators print (DESIGN §4.2, §5)."""
import json
import re

from framework import check_obligations
import pipeline

BASE_KINDS = {"scalar", "fixed", "dyn", "obj", "scalar[]", "fixed[]", "dyn[]", "obj[]", "-"}
SPEC = {
    # property: (Props module, sides, kinds, description)
    # C01: "no declared field is omitted, reordered, widened, narrowed" — every encoder step,
    # the computed members included (their VALUE is C04/C05/C06's subject, their presence,
    # order and width are C01's as well).  C02: `emitted_roundtrip_full` needs the whole
    # program accepted (decoder = spec for the first clauses, encoder = spec for "re-encoding
    # reproduces the same bytes"), so every reason counts; a match arm lost in a decoder
    # (seeded/C02d) breaks the round trip exactly like a mis-sized integer does.
    "C01": ("C01", {"enc"}, None),
    "C02": ("C02", {"enc", "dec"}, None),
    "C03": ("C03", {"enc", "dec"}, None),
    "C04": ("C04", {"enc", "dec"}, {"length", "length[]"}),
    "C05": ("C05", {"enc", "dec"}, {"match", "match[]"}),
    "C06": ("C06", {"enc", "dec"}, {"checksum", "checksum[]"}),
}
UNSUPPORTED_ATTRS = {"target-not-adjacent", "length-plan/far"}


def sizes(tier):
    return (150, True) if tier == "quick" else (2500, True)


def run(ctx):
    module, sides, kinds = SPEC[ctx.prop]
    check_obligations(ctx, module)
    n, with_matrix = sizes(ctx.tier)
    texts = pipeline.gen_inputs(ctx.seed, n, "codec", with_matrix)
    # `char` scalars: only Rust and Java have them in their type tables (their absence from Go / Python / C++ is the C07 finding
    # char-scalar-unsupported, which would drown every other reason of such a program), so these programs are judged for those two
    import random as _random
    import dslgen as _dslgen
    crng = _random.Random(ctx.seed * 7919 + 3)
    char_texts = []
    while len(char_texts) < max(6, n // 8):
        t = _dslgen.render(_dslgen.gen_program(crng, _dslgen.Cfg(allow_char=True)))
        if re.search(r"^\s+(repeat )?char \w", t, re.M):
            char_texts.append(t)
    char_set = set(char_texts)
    texts = texts + char_texts
    results = pipeline.run_pipeline(texts, "codec-%s-%d" % (ctx.tier, ctx.seed))
    programs = 0
    accepted = 0
    evaluated = set()
    for item in results:
        if "error" in item:
            ctx.count("inputs_without_model")
            continue
        for target in pipeline.CODEC_TARGETS:
            if item["text"] in char_set and target not in ("rust", "java"):
                ctx.count("char_programs_not_judged_for_" + target)
                continue
            ent = item["targets"].get(target) or {}
            if "conform" not in ent:
                ctx.count("no_output/" + target)
                continue
            programs += 1
            c = ent["conform"]
            if ent.get("shared_diff"):
                # the verdict below is about the single-target output; the same request next to other targets printed other text
                ctx.finding("multi-target-output-differs/" + target,
                            "%s output of a run over all targets differs from its single-target output in %s" % (target, ent["shared_diff"][:3]),
                            {"dsl": item["text"], "target": target, "files": ent["shared_diff"][:5],
                             "broken": "correspondence: the validated text is not what `compile` writes next to other targets"}, True)
            else:
                ctx.count("multi_target_output_identical")
            if "load_error" in c:
                sig = "%s/ill-scoped" % target
                ctx.count("reasons_examined")
                ctx.finding(sig, "emitted %s program refers to an undeclared member: %s" % (target, c["load_error"]),
                            {"dsl": item["text"], "target": target, "load_error": c["load_error"]})
                continue
            if "reasons" not in c:
                ctx.count("model_rejects_input")
                continue
            if not c.get("consistent", True):
                ctx.finding("internal/explain-vs-validator", "explain and validator disagree (tooling)", {"dsl": item["text"], "target": target}, False)
            mine = [r for r in c["reasons"] if r["side"] in sides and (kinds is None or r["kind"] in kinds)]
            if not mine:
                accepted += 1
                if target == "go":
                    ctx.sample({"dsl": item["text"][:400], "verdict": "validator accepts: %s holds for all messages of this program" % ctx.prop}, 3)
            # a packet whose length field is not directly followed by its target is outside the validator's (and the theorem's)
            # domain; every reason reported for it is an artefact of the unsupported plan.  It is decided by direct evaluation:
            # the IR semantics of the real output against the declared layout on sampled messages of that packet.
            far = {r["packet"] for r in c["reasons"] if r["attr"] in UNSUPPORTED_ATTRS}
            for r in mine:
                ctx.count("reasons_examined")
                if r["packet"] in far:
                    ctx.count("unsupported_layout")
                    key = (item["text"], target, r["packet"])
                    if key in evaluated or "enc" not in sides:
                        continue
                    evaluated.add(key)
                    s = pipeline.search_failing(item["text"], ent["prog"], r["packet"], ctx.seed, 40)
                    # with a checksum service registered, a checksum INSIDE the measured payload sees the length placeholder in
                    # one reading and the patched length in the other (DESIGN §8.0): only failures without a service count here;
                    # the decoder side of a length field is a plain read, judged by confDec
                    if s.get("fail") == "enc" and s.get("registry") == "none":
                        sig = "enc/%s/far-layout-evaluated" % target
                        ctx.finding(sig, "packet %s (length field not adjacent to its target): the emitted encoder deviates from the declared layout on a sampled message"
                                    % r["packet"],
                                    {"dsl": item["text"], "target": target, "reason": r, "search": s,
                                     "broken": "direct evaluation (outside the validator's domain): IR.encStruct vs Wire.enc"}, True)
                    else:
                        ctx.count("unsupported_layout_evaluated_ok")
                    continue
                sig = "%s/%s/%s/%s" % (r["side"], target, r["kind"], r["attr"])
                if ctx.is_known(sig):
                    ctx.finding(sig, "%s.%s: expected %s, emitted %s" % (r["packet"], r["field"], r["expected"], r["got"]))
                    continue
                if any(v[0] == sig for v in ctx.violations):
                    continue
                s = pipeline.search_failing(item["text"], ent["prog"], r["packet"], ctx.seed)
                found = s.get("fail") in ("enc", "dec")
                ctx.finding(sig, "%s.%s: expected %s, emitted %s" % (r["packet"], r["field"], r["expected"], r["got"]),
                            {"dsl": item["text"], "target": target, "reason": r, "search": s,
                             "broken": "correspondence T2: Conforms.%s rejects the real %s output" % ("confEnc" if r["side"] == "enc" else "confDec", target)},
                            found)
    if ctx.broken and not ctx.violations:
        # a proof obligation no longer checks: look for a concrete failing message on every accepted program
        hit = None
        for item in results[:200]:
            for target in pipeline.CODEC_TARGETS:
                ent = (item.get("targets") or {}).get(target) or {}
                if "prog" in ent and "reasons" in ent.get("conform", {}):
                    s = pipeline.search_failing(item["text"], ent["prog"], None, ctx.seed, 20)
                    if s.get("fail") in ("enc", "dec"):
                        hit = {"dsl": item["text"], "target": target, "search": s}
                        break
            if hit:
                break
        ctx.finding("obligation/" + module, "; ".join(ctx.broken)[:500], dict(hit or {}, broken=ctx.broken), hit is not None)
    ctx.cov.update({"programs": programs, "programs_accepted": accepted, "disagreements_checked": ctx.cov.get("reasons_examined", 0),
                    "dsl_texts": len(texts), "targets": pipeline.CODEC_TARGETS,
                    "explanation": "every (DSL program, codec target) pair: real generator output -> extractor -> IR -> "
                                   "verified validator; validator true ⇒ the property holds for ALL messages by the soundness theorem"})
    return ctx.finish("proof")
