"""C15: the Wireshark dissector attributes each field its true byte range."""
import re

from framework import check_obligations
import dslgen
import harness
import leandrv
import pipeline
import random
import sys, os
sys.path.insert(0, os.path.join(os.path.dirname(os.path.dirname(os.path.abspath(__file__))), "tv"))
import lua as tvlua


def names_of(text):
    return sorted(set(re.findall(r"[A-Za-z_][A-Za-z_0-9]*", text)))


def run_c15(ctx):
    check_obligations(ctx, "C15")
    n = 60 if ctx.tier == "quick" else 1000
    texts = pipeline.gen_inputs(ctx.seed, n, "safe", True)
    gens = harness.run_ops([{"op": "gen", "text": t, "order": ["lua"], "fresh": True} for t in texts])
    snakes = harness.run_ops([{"op": "strcase", "names": names_of(t)} for t in texts])
    reqs, where = [], []
    for t, g, sn in zip(texts, gens, snakes):
        run = (g.get("runs") or [{}])[0]
        if "files" not in run:
            ctx.count("no_lua_output")
            continue
        ex = tvlua.extract(run["files"])
        table = {k: v[0] for k, v in sn.get("names", {}).items()}
        prog = {"funcs": ex["funcs"], "main": ex["main"]}
        reqs.append({"op": "disconf", "text": t, "prog": prog, "snake": table})
        where.append((t, ex, prog, table))
    outs = leandrv.run_ops(reqs)
    found_input, pending, tried = {}, {}, {}
    for (t, ex, prog, table), o in zip(where, outs):
        ctx.count("programs")
        if ex["residue"]:
            ctx.count("programs_with_residue_left_to_C07")
        if "reasons" not in o:
            ctx.finding("tool/lua-load", "the extracted dissector cannot be loaded: %s" % str(o)[:200], {"dsl": t, "out": o}, False)
            continue
        if not o.get("consistent", True):
            ctx.finding("internal/explain-vs-validator", "explain and validator disagree (tooling)", {"dsl": t}, False)
        if o["ok"]:
            ctx.count("programs_accepted")
            ctx.sample({"dsl": t[:300], "verdict": "the emitted dissector is the canonical dissector of this DSL"}, 3)
            continue
        for r in o["reasons"]:
            ctx.count("reasons_examined")
            sig = "lua/" + r["cls"]
            if ctx.is_known(sig):
                ctx.finding(sig, "%s: expected %s, emitted %s" % (r["where"], r["expected"], r["got"]))
                continue
            if sig in found_input:
                continue
            tried[sig] = tried.get(sig, 0) + 1
            if tried[sig] > 12:
                continue
            s = leandrv.run_ops([{"op": "dissearch", "text": t, "prog": prog, "snake": table, "seed": ctx.seed, "tries": 80}])[0]
            cand = (sig, "%s: expected %s, emitted %s" % (r["where"], r["expected"], r["got"]),
                    {"dsl": t, "reason": r, "search": s, "broken": "correspondence T2: Lua.confDis rejects the real dissector"}, "fail" in s)
            if "fail" in s:
                found_input[sig] = cand
            else:
                pending.setdefault(sig, cand)
    for sig, cand in list(found_input.items()) + [(k, v) for k, v in pending.items() if k not in found_input]:
        ctx.finding(*cand)
    if ctx.broken and not ctx.violations:
        ctx.finding("obligation/C15", "; ".join(ctx.broken)[:500], {"broken": ctx.broken}, False)
    ctx.cov.update({"disagreements_checked": ctx.cov.get("reasons_examined", 0), "dsl_texts": len(texts),
                    "explanation": "every DSL program: real Lua output -> extractor -> dissector IR -> validator (equality with the canonical dissector "
                                   "of the schema, helper definition order); on rejection the IR semantics is run on sampled messages against the declared ranges"})
    return ctx.finish("proof")


TABLE = {"C15": run_c15}
