"""C15: the Wireshark dissector attributes each field its true byte range."""
import re

from framework import check_obligations
import dslgen
import harness
import leandrv
import pipeline
import random
import sys, os
sys.path.insert(0, os.path.join(os.path.dirname(os.path.dirname(os.path.abspath(__file__))), "tv"))
import lua as tvlua


def names_of(text):
    return sorted(set(re.findall(r"[A-Za-z_][A-Za-z_0-9]*", text)))


def same_named_inline(ctx):
    """Inline objects are scoped to their parent: two packets may each declare an inline object of the same name with
    different members.  The wire specification (and the validator) identify packets by name, so such programs are decided
    by a renaming argument instead: the program A with distinct inline names is validated above; the dissector of the
    program B = A with two inline objects given one name must be A's dissector with the same renaming applied."""
    import copy
    rng = random.Random(ctx.seed * 61 + 3)
    n = 25 if ctx.tier == "quick" else 300
    cases = []
    tries = 0
    while len(cases) < n and tries < n * 20:
        tries += 1
        p = dslgen.gen_program(rng, dslgen.Cfg(max_packets=4))
        tops = [(pi, fi) for pi, pk in enumerate(p["packets"]) for fi, f in enumerate(pk["fields"]) if f["kind"] == "inline"]
        pkts = sorted({pi for pi, _ in tops})
        if len(pkts) < 2:
            continue
        a = rng.choice(tops)
        b = rng.choice([t for t in tops if t[0] != a[0]])
        fa, fb = p["packets"][a[0]]["fields"][a[1]], p["packets"][b[0]]["fields"][b[1]]
        if fa["name"] == fb["name"] or "Shared" in dslgen.render(p):
            continue
        q = copy.deepcopy(p)
        q["packets"][a[0]]["fields"][a[1]]["name"] = "Shared"
        q["packets"][b[0]]["fields"][b[1]]["name"] = "Shared"
        cases.append((dslgen.render(p), dslgen.render(q), fa["name"], fb["name"]))
    if not cases:
        return
    ra = harness.run_ops([{"op": "gen", "text": a, "order": ["lua"], "fresh": True} for a, _, _, _ in cases])
    rb = harness.run_ops([{"op": "gen", "text": b, "order": ["lua"], "fresh": True} for _, b, _, _ in cases])
    sn = harness.run_ops([{"op": "strcase", "names": [x, y, "Shared"]} for _, _, x, y in cases])
    for (a, b, x, y), ga, gb, names in zip(cases, ra, rb, sn):
        fa = ((ga.get("runs") or [{}])[0]).get("files")
        fb = ((gb.get("runs") or [{}])[0]).get("files")
        if not fa or not fb:
            if bool(fa) != bool(fb):
                ctx.finding("lua/same-named-inline-objects/accept-differs", "giving two inline objects of different packets one name changes whether the DSL compiles",
                            {"dsl_distinct": a, "dsl_same_name": b})
            continue
        ctx.count("same_named_inline_pairs")
        table = {k: v[0] for k, v in names.get("names", {}).items()}

        def rename(text):
            for old in (x, y):
                text = re.sub(r"\b%s\b" % re.escape(old), "Shared", text)
                text = re.sub(r"(?<![A-Za-z0-9])%s(?![A-Za-z0-9])" % re.escape(table.get(old, old)), table.get("Shared", "shared"), text)
            return text
        ta = {rename(k): rename(v) for k, v in fa.items()}
        if ta != fb:
            k = sorted(set(ta) | set(fb))[0]
            la, lb = ta.get(k, "").split("\n"), fb.get(k, "").split("\n")
            first = next((i for i, (u, v) in enumerate(zip(la, lb)) if u != v), min(len(la), len(lb)))
            ctx.finding("lua/same-named-inline-objects", "two inline objects of different packets share a name: the dissector differs from the dissector of the "
                        "same program with distinct names (first difference at line %d: %r vs %r)" % (first + 1, (la + [""])[first][:80], (lb + [""])[first][:80]),
                        {"dsl_distinct": a, "dsl_same_name": b, "renamed": [x, y], "line": first + 1,
                         "expected": "\n".join(la[max(0, first - 3):first + 4]), "emitted": "\n".join(lb[max(0, first - 3):first + 4])})
        else:
            ctx.count("same_named_inline_pairs_equal")


def run_c15(ctx):
    check_obligations(ctx, "C15")
    n = 60 if ctx.tier == "quick" else 1000
    texts = pipeline.gen_inputs(ctx.seed, n, "safe", True)
    gens = harness.run_ops([{"op": "gen", "text": t, "order": ["lua"], "fresh": True} for t in texts])
    snakes = harness.run_ops([{"op": "strcase", "names": names_of(t)} for t in texts])
    reqs, where = [], []
    for t, g, sn in zip(texts, gens, snakes):
        run = (g.get("runs") or [{}])[0]
        if "files" not in run:
            ctx.count("no_lua_output")
            continue
        ex = tvlua.extract(run["files"])
        table = {k: v[0] for k, v in sn.get("names", {}).items()}
        prog = {"funcs": ex["funcs"], "main": ex["main"]}
        reqs.append({"op": "disconf", "text": t, "prog": prog, "snake": table})
        where.append((t, ex, prog, table))
    outs = leandrv.run_ops(reqs)
    found_input, pending, tried = {}, {}, {}
    for (t, ex, prog, table), o in zip(where, outs):
        ctx.count("programs")
        if ex["residue"]:
            ctx.count("programs_with_residue_left_to_C07")
        if "reasons" not in o:
            ctx.finding("tool/lua-load", "the extracted dissector cannot be loaded: %s" % str(o)[:200], {"dsl": t, "out": o}, False)
            continue
        if not o.get("consistent", True):
            ctx.finding("internal/explain-vs-validator", "explain and validator disagree (tooling)", {"dsl": t}, False)
        if o["ok"]:
            ctx.count("programs_accepted")
            ctx.sample({"dsl": t[:300], "verdict": "the emitted dissector is the canonical dissector of this DSL"}, 3)
            continue
        for r in o["reasons"]:
            ctx.count("reasons_examined")
            sig = "lua/" + r["cls"]
            if ctx.is_known(sig):
                ctx.finding(sig, "%s: expected %s, emitted %s" % (r["where"], r["expected"], r["got"]))
                continue
            if sig in found_input:
                continue
            tried[sig] = tried.get(sig, 0) + 1
            if tried[sig] > 12:
                continue
            s = leandrv.run_ops([{"op": "dissearch", "text": t, "prog": prog, "snake": table, "seed": ctx.seed, "tries": 80}])[0]
            cand = (sig, "%s: expected %s, emitted %s" % (r["where"], r["expected"], r["got"]),
                    {"dsl": t, "reason": r, "search": s, "broken": "correspondence T2: Lua.confDis rejects the real dissector"}, "fail" in s)
            if "fail" in s:
                found_input[sig] = cand
            else:
                pending.setdefault(sig, cand)
    for sig, cand in list(found_input.items()) + [(k, v) for k, v in pending.items() if k not in found_input]:
        ctx.finding(*cand)
    same_named_inline(ctx)
    # the dissector Wireshark loads is the FILE `compile -l` leaves: written over an earlier, longer dissector of the same name it
    # must be exactly the text judged above
    from common import build_harness, scratch, rm
    import checks_front
    _h, cbin = build_harness()
    d = scratch()
    try:
        done = 0
        for t, g in zip(texts, gens):
            run = (g.get("runs") or [{}])[0]
            if "files" not in run or done >= (3 if ctx.tier == "quick" else 30):
                continue
            done += 1
            f = os.path.join(d, "p.dsl")
            with open(f, "w") as fh:
                fh.write(t)
            o = os.path.join(d, "lua")
            rm(o)
            os.makedirs(o)
            for rel, body in run["files"].items():
                with open(os.path.join(o, rel), "w", encoding="utf-8", newline="") as fh:
                    fh.write(body + "\n-- an earlier, longer dissector\n" + body)
            rc, _, _ = checks_front.cli(cbin, ["compile", "-f", f, "-l", o], d)
            ctx.count("dissector_files_checked")
            bad = [rel for rel, body in run["files"].items() if open(os.path.join(o, rel), encoding="utf-8", newline="").read() != body]
            if rc != 0 or bad:
                ctx.finding("lua/file-on-disk", "the dissector file left by `compile -l` over an earlier, longer one is not the generated dissector (exit %d)" % rc,
                            {"dsl": t, "files": bad})
    finally:
        rm(d)
    if ctx.broken and not ctx.violations:
        ctx.finding("obligation/C15", "; ".join(ctx.broken)[:500], {"broken": ctx.broken}, False)
    ctx.cov.update({"disagreements_checked": ctx.cov.get("reasons_examined", 0), "dsl_texts": len(texts),
                    "explanation": "every DSL program: real Lua output -> extractor -> dissector IR -> validator (equality with the canonical dissector "
                                   "of the schema, helper definition order); on rejection the IR semantics is run on sampled messages against the declared ranges"})
    return ctx.finish("proof")


TABLE = {"C15": run_c15}
