"""The emitted-code pipeline (ties T2/T3 of DESIGN §4): DSL texts -> real generators ->
extractors -> verified validators in Lean.  Results are cached per (repo tree, verif
sources, input set) so the property checks of one run share the work."""
import hashlib
import importlib
import json
import os
import random
import sys

from common import CACHE, VERIF, Lock, log, repo_hash, tree_hash
import dslgen
import harness
import leandrv

sys.path.insert(0, os.path.join(VERIF, "tv"))

CODEC_TARGETS = ["go", "rust", "java", "python", "cpp"]
ALL_TARGETS = ["lua", "rust", "go", "java", "python", "cpp"]   # CLI order
EXTRACTOR = {"go": "go", "rust": "rust", "java": "java", "python": "py", "cpp": "cpp"}


def verif_hash():
    return tree_hash(VERIF, (".py", ".go", ".lean", ".toml"))


def corpus_texts():
    d = os.path.join(VERIF, "corpus", "dsl")
    out = []
    if os.path.isdir(d):
        for f in sorted(os.listdir(d)):
            if f.endswith(".dsl"):
                out.append(open(os.path.join(d, f), encoding="utf-8").read())
    return out


def matrix_programs():
    """A covering set of configurations: every option value at least once with every field
    kind present (quick); the thorough tier enumerates the full product."""
    progs = []
    rng = random.Random(4242)
    for le in (None, "true", "false"):
        for sp in (None, "u8", "u16", "u32", "u64"):
            for ap in (None, "u8", "u16", "u32", "u64"):
                cfg = dslgen.Cfg(options=False, pad_options=False)
                p = dslgen.gen_program(rng, cfg)
                opts = []
                if le:
                    opts.append(("LittleEndian", le))
                if sp:
                    opts.append(("StringPrefixLenType", sp))
                if ap:
                    opts.append(("ArrayPrefixLenType", ap))
                p["options"] = opts
                progs.append(p)
    return progs


ALL_KINDS_BODY = """MetaData Meta {
    uint32 SeqNo `seq`,
    char[8] Venue `venue`,
    zchar[6] Zs `zs`,
    string Txt `txt`,
}

packet Leg {
    uint16 LegId,
    string Sym,
    repeat string Tags,
}

packet Ack {
    uint8 Code,
}

packet Rej {
    uint8 Code,
    char[4] Why,
    repeat Leg Legs,
}

root packet Msg {
    uint16 MsgType,
    SeqNo,
    Venue,
    Zs Zed,
    Txt Note,
    repeat Txt Notes,
    repeat uint8 Flags,
    repeat i64 Deltas,
    repeat string Names,
    repeat char[3] Tags,
    @leftPad('0')
    repeat char[5] Padded,
    repeat zchar[4] Zeds,
    u64 Big,
    i8 Small,
    f32 Rate,
    f64 Px,
    @rightPad('0')
    char[7] Acct,
    Leg TheLeg,
    repeat Leg Legs,
    Inner {
        i8 A,
        f64 Q,
        repeat string Notes,
        Leg Deep,
    },
    repeat Rows {
        u16 No,
        string Text,
    },
    uint32 BodyLen @lengthOf(Body),
    match MsgType as Body {
        1 : Ack,
        [2, 3] : Rej,
        65535 : Leg,
    },
    uint32 Crc @calculatedFrom("CRC32"),
}
"""


def all_kinds_matrix():
    """ONE program with every field kind, under every combination of byte order, string prefix and list prefix (u64 included)"""
    out = []
    for le in (None, "true", "false"):
        for sp in (None, "u8", "u16", "u32", "u64"):
            for ap in (None, "u8", "u16", "u32", "u64"):
                opts = [("JavaPackage", '"com.example.msg"'), ("GoPackage", '"msg"'), ("GoModule", '"example.com/msg"')]
                if le:
                    opts.append(("LittleEndian", le))
                if sp:
                    opts.append(("StringPrefixLenType", sp))
                if ap:
                    opts.append(("ArrayPrefixLenType", ap))
                out.append("options {\n" + "".join("    %s = %s;\n" % kv for kv in opts) + "}\n\n" + ALL_KINDS_BODY)
    return out


def gen_inputs(seed, n_random, profile="safe", with_matrix=True):
    rng = random.Random(seed)
    texts = list(corpus_texts())
    if with_matrix:
        texts += [dslgen.render(p) for p in matrix_programs()]
        texts += all_kinds_matrix()
    cfg = (dslgen.Cfg() if profile == "safe" else dslgen.Cfg(length_any_target=True) if profile == "codec"
           else dslgen.Cfg(allow_char=True, odd_names=True, unique_inline=False))
    for _ in range(n_random):
        texts.append(dslgen.render(dslgen.gen_program(rng, cfg)))
    return texts


def run_pipeline(texts, tag):
    """-> list of {text, targets: {t: {files|panic|..., extract: {...}, conform: {...}}}}; cached."""
    key = hashlib.sha256((repo_hash() + verif_hash() + tag + hashlib.sha256("\x00".join(texts).encode()).hexdigest()).encode()).hexdigest()[:20]
    path = os.path.join(CACHE, "pipe-%s.json" % key)
    with Lock("pipe-" + key):
        if os.path.exists(path):
            with open(path) as fh:
                return json.load(fh)
        res = harness.run_ops([{"op": "gen", "text": t, "order": ALL_TARGETS, "fresh": True} for t in texts])
        # what the command writes when several targets are requested at once: ONE parsed model, the generators in the CLI order.
        # The validators judge the single-target output; `shared_diff` ties that verdict to the multi-target run.
        shared = harness.run_ops([{"op": "gen", "text": t, "order": ALL_TARGETS, "fresh": False} for t in texts])
        out = []
        reqs = []
        where = []
        for t, r, sh in zip(texts, res, shared):
            item = {"text": t, "targets": {}}
            out.append(item)
            if "runs" not in r:
                item["error"] = {k: v for k, v in r.items() if k != "id"}
                continue
            shruns = {x["lang"]: x for x in sh.get("runs", [])}
            for run in r["runs"]:
                lang = run["lang"]
                ent = {k: v for k, v in run.items() if k not in ("files", "lang")}
                item["targets"][lang] = ent
                if "files" not in run:
                    continue
                ent["files"] = run["files"]
                other = shruns.get(lang, {}).get("files")
                if other is None:
                    ent["shared_diff"] = ["<no output in the multi-target run>"]
                else:
                    ent["shared_diff"] = sorted(k for k in set(other) | set(run["files"]) if other.get(k) != run["files"].get(k))
                if lang in EXTRACTOR:
                    mod = importlib.import_module(EXTRACTOR[lang])
                    try:
                        ex = mod.extract(run["files"])
                    except Exception as e:  # an extractor crash is a tooling error, reported as such
                        ent["extract_error"] = "%s: %s" % (type(e).__name__, e)
                        continue
                    ent["extract"] = {k: ex.get(k) for k in ("residue", "markers", "issues")}
                    tables = ex["tables"]
                    if lang == "python":
                        # a Python module rebinds `<p>MessageFactory` when a packet has several match fields:
                        # at decode time the LAST definition is the one every dispatch uses
                        tables = list(reversed(tables))
                    ent["prog"] = {"structs": ex["structs"], "tables": tables}
                    ent["tests"] = ex.get("tests")
                    reqs.append({"op": "conform", "text": t, "prog": ent["prog"]})
                    where.append(ent)
        for ent, o in zip(where, leandrv.run_ops(reqs)):
            ent["conform"] = o
        # declared scalar types against the member types of the typed targets and the accessor names of Python: signedness is
        # not in the IR (a value is its two's-complement residue there), so it is compared here, outside the validators
        texts_ok = [item["text"] for item in out if "error" not in item]
        schemas = dict(zip(texts_ok, leandrv.run_ops([{"op": "schema", "text": t} for t in texts_ok]))) if texts_ok else {}
        for item in out:
            sch = schemas.get(item.get("text"))
            if not sch or "packets" not in sch:
                continue
            for lang, ent in item["targets"].items():
                c = ent.get("conform") or {}
                if "reasons" in c and "prog" in ent:
                    c["reasons"] = c["reasons"] + member_type_reasons(lang, ent["prog"]["structs"], sch)
        os.makedirs(CACHE, exist_ok=True)
        tmp = path + ".tmp%d" % os.getpid()
        with open(tmp, "w") as fh:
            json.dump(out, fh)
        os.replace(tmp, path)
        prune_cache()
        return out


MEMBER_TYPES = {
    "go": {"u8": "uint8", "u16": "uint16", "u32": "uint32", "u64": "uint64", "i8": "int8", "i16": "int16", "i32": "int32", "i64": "int64",
           "f32": "float32", "f64": "float64"},
    "rust": {t: t for t in ("u8", "u16", "u32", "u64", "i8", "i16", "i32", "i64", "f32", "f64")},
    "cpp": {"u8": "uint8_t", "u16": "uint16_t", "u32": "uint32_t", "u64": "uint64_t", "i8": "int8_t", "i16": "int16_t", "i32": "int32_t",
            "i64": "int64_t", "f32": "float", "f64": "double"},
    # Java has no unsigned types: the carrier of a u<N> is the signed type of the same width (its own decoder and encoder agree on it)
    "java": {"u8": "byte", "u16": "short", "u32": "int", "u64": "long", "i8": "byte", "i16": "short", "i32": "int", "i64": "long",
             "f32": "float", "f64": "double"},
}
LIST_OF = {"go": "[]%s", "rust": "Vec<%s>", "cpp": "std::vector<%s>", "java": "List<%s>"}
JAVA_BOX = {"byte": "Byte", "short": "Short", "int": "Integer", "long": "Long", "float": "Float", "double": "Double"}


def member_type_reasons(lang, structs, schema):
    """reasons (same shape as the validators') for scalar members whose target-language type is not the declared one"""
    out = []
    for p in schema["packets"]:
        st = next((s for s in structs if s["name"].lower().replace("_", "") == p["name"].lower().replace("_", "")), None)
        if st is None or len(st.get("members") or []) != len(p["fields"]):
            continue          # missing struct / member count: reported by the validators
        for i, (f, m) in enumerate(zip(p["fields"], st["members"])):
            if f["kind"] not in ("scalar", "length", "checksum") or f["ty"] == "char":
                continue
            kind = {"scalar": "scalar", "length": "length", "checksum": "checksum"}[f["kind"]] + ("[]" if f["rep"] else "")
            if lang == "python":
                got = (st.get("accessors") or {}).get(m["id"])
                if got is None:
                    continue
                want = [f["ty"]]
                if got != want:
                    out.append({"side": "enc", "packet": p["name"], "field": f["name"], "kind": kind, "attr": "accessor-type",
                                "expected": "buffer.write_/read_%s" % f["ty"], "got": ",".join(got)})
                continue
            want = MEMBER_TYPES.get(lang, {}).get(f["ty"])
            if want is None:
                continue
            if f["rep"]:
                want = LIST_OF[lang] % (JAVA_BOX[want] if lang == "java" else want)
            if m.get("ty") != want:
                out.append({"side": "enc", "packet": p["name"], "field": f["name"], "kind": kind, "attr": "member-type",
                            "expected": want, "got": str(m.get("ty"))})
    return out


def prune_cache(keep=10):
    """the cache is keyed by the hashes of /repo and /verif: stale entries pile up while either changes"""
    try:
        files = sorted((f for f in os.listdir(CACHE) if f.startswith("pipe-") and f.endswith(".json")),
                       key=lambda f: os.path.getmtime(os.path.join(CACHE, f)), reverse=True)
        for f in files[keep:]:
            for g in (f, f[:-5] + ".lock"):
                try:
                    os.remove(os.path.join(CACHE, g))
                except OSError:
                    pass
    except OSError:
        pass


def search_failing(text, prog, packet, seed, tries=60):
    """Ask the Lean driver to evaluate the property directly on the real IR: look for a
    message on which the emitted encoder/decoder deviates from the wire specification."""
    o = leandrv.run_ops([{"op": "search", "text": text, "prog": prog, "packet": packet, "seed": seed, "tries": tries}])[0]
    return o
