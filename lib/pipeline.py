"""The emitted-code pipeline (ties T2/T3 of DESIGN §4): DSL texts -> real generators ->
extractors -> verified validators in Lean.  Results are cached per (repo tree, verif
sources, input set) so the property checks of one run share the work."""
import hashlib
import importlib
import json
import os
import random
import sys

from common import CACHE, VERIF, Lock, log, repo_hash, tree_hash
import dslgen
import harness
import leandrv

sys.path.insert(0, os.path.join(VERIF, "tv"))

CODEC_TARGETS = ["go", "rust", "java", "python", "cpp"]
ALL_TARGETS = ["lua", "rust", "go", "java", "python", "cpp"]   # CLI order
EXTRACTOR = {"go": "go", "rust": "rust", "java": "java", "python": "py", "cpp": "cpp"}


def verif_hash():
    return tree_hash(VERIF, (".py", ".go", ".lean", ".toml"))


def corpus_texts():
    d = os.path.join(VERIF, "corpus", "dsl")
    out = []
    if os.path.isdir(d):
        for f in sorted(os.listdir(d)):
            if f.endswith(".dsl"):
                out.append(open(os.path.join(d, f), encoding="utf-8").read())
    return out


def matrix_programs():
    """A covering set of configurations: every option value at least once with every field
    kind present (quick); the thorough tier enumerates the full product."""
    progs = []
    rng = random.Random(4242)
    for le in (None, "true", "false"):
        for sp in (None, "u8", "u16", "u32"):
            for ap in (None, "u8", "u16", "u32"):
                cfg = dslgen.Cfg(options=False, pad_options=False)
                p = dslgen.gen_program(rng, cfg)
                opts = []
                if le:
                    opts.append(("LittleEndian", le))
                if sp:
                    opts.append(("StringPrefixLenType", sp))
                if ap:
                    opts.append(("ArrayPrefixLenType", ap))
                p["options"] = opts
                progs.append(p)
    return progs


def gen_inputs(seed, n_random, profile="safe", with_matrix=True):
    rng = random.Random(seed)
    texts = list(corpus_texts())
    if with_matrix:
        texts += [dslgen.render(p) for p in matrix_programs()]
    cfg = (dslgen.Cfg() if profile == "safe" else dslgen.Cfg(length_any_target=True) if profile == "codec"
           else dslgen.Cfg(allow_char=True, odd_names=True, unique_inline=False))
    for _ in range(n_random):
        texts.append(dslgen.render(dslgen.gen_program(rng, cfg)))
    return texts


def run_pipeline(texts, tag):
    """-> list of {text, targets: {t: {files|panic|..., extract: {...}, conform: {...}}}}; cached."""
    key = hashlib.sha256((repo_hash() + verif_hash() + tag + hashlib.sha256("\x00".join(texts).encode()).hexdigest()).encode()).hexdigest()[:20]
    path = os.path.join(CACHE, "pipe-%s.json" % key)
    with Lock("pipe-" + key):
        if os.path.exists(path):
            with open(path) as fh:
                return json.load(fh)
        res = harness.run_ops([{"op": "gen", "text": t, "order": ALL_TARGETS, "fresh": True} for t in texts])
        out = []
        reqs = []
        where = []
        for t, r in zip(texts, res):
            item = {"text": t, "targets": {}}
            out.append(item)
            if "runs" not in r:
                item["error"] = {k: v for k, v in r.items() if k != "id"}
                continue
            for run in r["runs"]:
                lang = run["lang"]
                ent = {k: v for k, v in run.items() if k not in ("files", "lang")}
                item["targets"][lang] = ent
                if "files" not in run:
                    continue
                ent["files"] = run["files"]
                if lang in EXTRACTOR:
                    mod = importlib.import_module(EXTRACTOR[lang])
                    try:
                        ex = mod.extract(run["files"])
                    except Exception as e:  # an extractor crash is a tooling error, reported as such
                        ent["extract_error"] = "%s: %s" % (type(e).__name__, e)
                        continue
                    ent["extract"] = {k: ex.get(k) for k in ("residue", "markers", "issues")}
                    tables = ex["tables"]
                    if lang == "python":
                        # a Python module rebinds `<p>MessageFactory` when a packet has several match fields:
                        # at decode time the LAST definition is the one every dispatch uses
                        tables = list(reversed(tables))
                    ent["prog"] = {"structs": ex["structs"], "tables": tables}
                    ent["tests"] = ex.get("tests")
                    reqs.append({"op": "conform", "text": t, "prog": ent["prog"]})
                    where.append(ent)
        for ent, o in zip(where, leandrv.run_ops(reqs)):
            ent["conform"] = o
        os.makedirs(CACHE, exist_ok=True)
        tmp = path + ".tmp%d" % os.getpid()
        with open(tmp, "w") as fh:
            json.dump(out, fh)
        os.replace(tmp, path)
        prune_cache()
        return out


def prune_cache(keep=10):
    """the cache is keyed by the hashes of /repo and /verif: stale entries pile up while either changes"""
    try:
        files = sorted((f for f in os.listdir(CACHE) if f.startswith("pipe-") and f.endswith(".json")),
                       key=lambda f: os.path.getmtime(os.path.join(CACHE, f)), reverse=True)
        for f in files[keep:]:
            for g in (f, f[:-5] + ".lock"):
                try:
                    os.remove(os.path.join(CACHE, g))
                except OSError:
                    pass
    except OSError:
        pass


def search_failing(text, prog, packet, seed, tries=60):
    """Ask the Lean driver to evaluate the property directly on the real IR: look for a
    message on which the emitted encoder/decoder deviates from the wire specification."""
    o = leandrv.run_ops([{"op": "search", "text": text, "prog": prog, "packet": packet, "seed": seed, "tries": tries}])[0]
    return o
