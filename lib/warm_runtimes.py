"""Build the stand-in runtimes' caches once (bin/setup): one tiny program through every runner."""
import concurrent.futures
import os
import sys

sys.path.insert(0, os.path.dirname(os.path.abspath(__file__)))
import harness
from common import rm, scratch
import checks_selftest as cs

TEXT = cs.FIXED_STRING_KEYS


def main():
    g = harness.run_ops([{"op": "gen", "text": TEXT, "order": cs.LANGS, "fresh": True}])[0]
    work = scratch("fpv-warm-")
    try:
        jobs = []
        for run in g.get("runs", []):
            if "files" in run:
                d = os.path.join(work, run["lang"])
                cs.write_files(d, run["files"])
                jobs.append((run["lang"], d, "none"))
        with concurrent.futures.ThreadPoolExecutor(max_workers=5) as pool:
            for job, res in zip(jobs, pool.map(cs.real_run, jobs)):
                st = res.get("build", res.get("runner_error", "?"))
                print("runtime %-6s build=%s tests=%s" % (job[0], st, [t["status"] for t in res.get("tests", [])]))
    finally:
        rm(work)


if __name__ == "__main__":
    main()
