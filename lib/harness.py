"""Drive the Go overlay harness: batches of JSON-line ops with crash attribution."""
import json
import subprocess

from common import build_harness, log


def run_ops(reqs, timeout=None):
    """Run ops through the real code.  Returns a list of response dicts aligned with reqs.
    A fatal (unrecoverable) crash of the harness process (e.g. Go stack overflow) is
    attributed to the op that was running: {"fatal": "<tail of stderr>"}; the batch then
    continues in a fresh process."""
    hbin, _ = build_harness()
    if timeout is None:
        timeout = max(900, 3 * len(reqs))        # generous: a verdict must not depend on how busy the machine is
    out = [None] * len(reqs)
    for i, r in enumerate(reqs):
        r["id"] = str(i)
    start = 0
    while start < len(reqs):
        payload = "".join(json.dumps(r) + "\n" for r in reqs[start:])
        try:
            p = subprocess.run([hbin], input=payload, capture_output=True, text=True, timeout=timeout,
                               env={"GOMEMLIMIT": "8GiB", "GOTRACEBACK": "single"})
            stdout, stderr, rc = p.stdout, p.stderr, p.returncode
        except subprocess.TimeoutExpired as e:
            stdout = e.stdout.decode() if isinstance(e.stdout, bytes) else (e.stdout or "")
            stderr, rc = "timeout", -9
        begun = None
        for line in stdout.split("\n"):
            try:
                m = json.loads(line)
            except ValueError:
                continue
            if "begin" in m:
                begun = int(m["begin"])
            elif "id" in m:
                out[int(m["id"])] = m
                begun = None
        if rc == 0 and begun is None:
            break
        if begun is None:
            # died between ops: nothing to attribute; give up on the rest
            log("harness died rc=%s with no op running: %s" % (rc, stderr[-500:]))
            for j in range(start, len(reqs)):
                if out[j] is None:
                    out[j] = {"fatal": "harness-died", "stderr": stderr[-300:]}
            break
        kind = "timeout" if stderr == "timeout" else ("stack" if "stack overflow" in stderr or "goroutine stack exceeds" in stderr else "fatal")
        if kind == "timeout":
            # the BATCH ran out of time (a loaded machine, a long batch): that says nothing about the op that happened to be
            # running.  It is a hang only if it does not finish on its own either.
            try:
                q = subprocess.run([hbin], input=json.dumps(reqs[begun]) + "\n", capture_output=True, text=True, timeout=300,
                                   env={"GOMEMLIMIT": "8GiB", "GOTRACEBACK": "single"})
                alone = None
                for line in q.stdout.split("\n"):
                    try:
                        m = json.loads(line)
                    except ValueError:
                        continue
                    if "id" in m:
                        alone = m
                if alone is not None and q.returncode == 0:
                    out[begun] = alone
                    start = begun + 1
                    continue
                if q.returncode != 0:
                    kind = "stack" if "stack overflow" in q.stderr or "goroutine stack exceeds" in q.stderr else "fatal"
                    stderr = q.stderr
            except subprocess.TimeoutExpired:
                pass
        out[begun] = {"fatal": kind, "stderr": stderr[:300]}
        start = begun + 1
    return out
