"""Drive the Go overlay harness: batches of JSON-line ops with crash attribution."""
import json
import subprocess

from common import build_harness, log


OP_LIMIT = 90       # seconds ONE op may take before the process is stopped (every real op takes milliseconds to a few seconds)
HANGS = [0]         # confirmed hangs of this run: the first one is given every benefit of the doubt (a busy machine), the later ones
                    # are judged faster — a tree that hangs on one input usually hangs on many, and the verdict is already there


def op_limit():
    return OP_LIMIT if HANGS[0] == 0 else 40 if HANGS[0] < 3 else 12


def _run_watched(hbin, payload, batch_timeout):
    """run the harness over a batch; stop it when a single op (not the batch) exceeds OP_LIMIT.  -> (stdout, stderr, rc)"""
    import tempfile
    import threading
    import time
    with tempfile.TemporaryFile("w+") as ferr:
        p = subprocess.Popen([hbin], stdin=subprocess.PIPE, stdout=subprocess.PIPE, stderr=ferr, text=True,
                             env={"GOMEMLIMIT": "8GiB", "GOTRACEBACK": "single"})
        lines = []
        last = [time.time()]

        def reader():
            for line in p.stdout:
                lines.append(line)
                last[0] = time.time()

        def writer():
            try:
                p.stdin.write(payload)
                p.stdin.close()
            except (BrokenPipeError, OSError):
                pass
        tr = threading.Thread(target=reader, daemon=True)
        tw = threading.Thread(target=writer, daemon=True)
        tr.start()
        tw.start()
        t0 = time.time()
        timed_out = False
        while p.poll() is None:
            time.sleep(0.2)
            now = time.time()
            if now - last[0] > op_limit() or now - t0 > batch_timeout:
                timed_out = True
                p.kill()
                break
        p.wait()
        tr.join(5)
        ferr.seek(0)
        err = ferr.read()
        return "".join(lines), ("timeout" if timed_out else err), (-9 if timed_out else p.returncode)


def run_ops(reqs, timeout=None):
    """Run ops through the real code.  Returns a list of response dicts aligned with reqs.
    A fatal (unrecoverable) crash of the harness process (e.g. Go stack overflow) is
    attributed to the op that was running: {"fatal": "<tail of stderr>"}; the batch then
    continues in a fresh process."""
    hbin, _ = build_harness()
    if timeout is None:
        timeout = max(900, 3 * len(reqs))        # generous: a verdict must not depend on how busy the machine is
    out = [None] * len(reqs)
    for i, r in enumerate(reqs):
        r["id"] = str(i)
    start = 0
    while start < len(reqs):
        payload = "".join(json.dumps(r) + "\n" for r in reqs[start:])
        stdout, stderr, rc = _run_watched(hbin, payload, timeout)
        begun = None
        for line in stdout.split("\n"):
            try:
                m = json.loads(line)
            except ValueError:
                continue
            if "begin" in m:
                begun = int(m["begin"])
            elif "id" in m:
                out[int(m["id"])] = m
                begun = None
        if rc == 0 and begun is None:
            break
        if begun is None:
            # died between ops: nothing to attribute; give up on the rest
            log("harness died rc=%s with no op running: %s" % (rc, stderr[-500:]))
            for j in range(start, len(reqs)):
                if out[j] is None:
                    out[j] = {"fatal": "harness-died", "stderr": stderr[-300:]}
            break
        kind = "timeout" if stderr == "timeout" else ("stack" if "stack overflow" in stderr or "goroutine stack exceeds" in stderr else "fatal")
        if kind == "timeout":
            # the BATCH ran out of time (a loaded machine, a long batch): that says nothing about the op that happened to be
            # running.  It is a hang only if it does not finish on its own either.
            try:
                q = subprocess.run([hbin], input=json.dumps(reqs[begun]) + "\n", capture_output=True, text=True, timeout=op_limit(),
                                   env={"GOMEMLIMIT": "8GiB", "GOTRACEBACK": "single"})
                alone = None
                for line in q.stdout.split("\n"):
                    try:
                        m = json.loads(line)
                    except ValueError:
                        continue
                    if "id" in m:
                        alone = m
                if alone is not None and q.returncode == 0:
                    out[begun] = alone
                    start = begun + 1
                    continue
                if q.returncode != 0:
                    kind = "stack" if "stack overflow" in q.stderr or "goroutine stack exceeds" in q.stderr else "fatal"
                    stderr = q.stderr
            except subprocess.TimeoutExpired:
                HANGS[0] += 1
        out[begun] = {"fatal": kind, "stderr": stderr[:300]}
        start = begun + 1
    return out
