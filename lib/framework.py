"""Check framework: known findings, violations, replays, proof obligations, evidence."""
import json
import os
import re
import sys
import time

from common import LEAN, VERIF, Lock, log, sh

ALLOWED_AXIOMS = {"propext", "Classical.choice", "Quot.sound"}
FORBIDDEN = re.compile(r"\b(sorry|admit|native_decide|bv_decide|implemented_by|unsafe|maxHeartbeats 0)\b|^axiom ", re.M)

TRUSTED_BASE = [
    "Lean 4.33.0 kernel (lake build; leanchecker in the thorough tier)",
    "axioms of every property theorem ⊆ {propext, Classical.choice, Quot.sound} (audited by #print axioms on every run)",
    "wire specification FinProtoc/Spec.lean + SpecOf.lean (my reading of the DSL)",
    "IR semantics FinProtoc/IR.lean = runtime API contract of DESIGN §7 (the codec libraries are not in the sandbox)",
    "extractors /verif/tv/*.py (text of the real generators -> IR) and the Go overlay harness",
    "hand-written Lean models of lexer/parser/visitor/formatter tied by differential runs against the real code",
]


class Ctx:
    def __init__(self, prop, tier, seed):
        self.prop = prop
        self.tier = tier
        self.seed = seed
        self.t0 = time.time()
        self.known = load_known()
        self.violations = []          # (sig, replay_path, found_input)
        self.known_seen = {}          # sig -> description
        self.samples = []
        self.cov = {}
        self.obligations = []         # (theorem, axioms)
        self.broken = []              # names of obligations / correspondences that no longer check
        self.assumptions = []

    # ---- findings
    def is_known(self, sig):
        return (self.prop, sig) in self.known

    def finding(self, sig, what, replay=None, found_input=True):
        """A concrete deviation.  Known -> KNOWN-FINDING line; otherwise a violation."""
        if self.is_known(sig):
            if sig not in self.known_seen:
                self.known_seen[sig] = what
            return False
        for v in self.violations:
            if v[0] == sig:
                return True
        path = write_replay(self.prop, sig, dict(replay or {}, signature=sig, what=what, found_input=found_input))
        self.violations.append((sig, path, found_input))
        return True

    def count(self, key, n=1):
        self.cov[key] = self.cov.get(key, 0) + n

    def sample(self, s, limit=5):
        if len(self.samples) < limit:
            self.samples.append(s)

    # ---- finish
    def finish(self, level="proof", extra=None):
        for sig, what in sorted(self.known_seen.items()):
            print("KNOWN-FINDING: property=%s %s — %s" % (self.prop, sig, what))
        for sig, path, found in self.violations:
            print("VIOLATION property=%s replay=%s%s" % (self.prop, path, "" if found else " no-failing-input-found"))
        cov = dict(self.cov)
        cov.update({
            "obligations": len(self.obligations) + len(self.broken),
            "discharged": len(self.obligations),
            "checker_cmd": "cd /verif/lean && lake build FinProtoc.Props.%s && lake env lean .audit/Audit%s.lean  (#print axioms)" % (self.prop, self.prop),
            "trusted_base": TRUSTED_BASE,
            "theorems": [{"name": n, "axioms": a} for n, a in self.obligations],
            "broken_obligations": self.broken,
            "samples": self.samples or ["(no sample recorded)"],
            "known_findings_seen": sorted(self.known_seen),
        })
        if extra:
            cov.update(extra)
        ev = {"property_id": self.prop, "tier": self.tier, "seed": self.seed, "level": level, "coverage": cov,
              "assumptions": self.assumptions + ["runtime API contract of DESIGN.md §7", "value domain of DESIGN.md §8.0"],
              "wall_s": round(time.time() - self.t0, 2), "violations": len(self.violations)}
        os.makedirs(os.path.join(VERIF, "evidence"), exist_ok=True)
        with open(os.path.join(VERIF, "evidence", self.prop + ".json"), "w") as fh:
            json.dump(ev, fh, indent=1, ensure_ascii=False)
        return 1 if self.violations else 0


def load_known():
    out = set()
    p = os.path.join(VERIF, "KNOWN_FINDINGS.txt")
    if os.path.exists(p):
        for line in open(p, encoding="utf-8"):
            m = re.match(r"known:\s+property=(C\d+)\s+sig=(\S+)", line)
            if m:
                out.add((m.group(1), m.group(2)))
    return out


def write_replay(prop, sig, data):
    d = os.path.join(VERIF, "replays")
    os.makedirs(d, exist_ok=True)
    name = "%s-%s.json" % (prop, re.sub(r"[^A-Za-z0-9_.-]+", "_", sig.replace("[]", "-list"))[:80])
    path = os.path.join(d, name)
    with open(path, "w") as fh:
        json.dump(data, fh, indent=1, ensure_ascii=False)
    return path


# ------------------------------------------------------------------ proof obligations

def theorem_names(module_file):
    src = open(module_file, encoding="utf-8").read()
    ns = re.search(r"^namespace\s+(\S+)", src, re.M)
    prefix = (ns.group(1) + ".") if ns else ""
    return [prefix + n for n in re.findall(r"^theorem\s+([A-Za-z_][A-Za-z_0-9'.]*)", src, re.M)], src


def check_obligations(ctx, module):
    """Build FinProtoc.Props.<module>, audit sources and axioms.  A failure is recorded in
    ctx.broken (the caller then searches for a failing input)."""
    f = os.path.join(LEAN, "FinProtoc", "Props", module + ".lean")
    names, src = theorem_names(f)
    # forbidden constructs anywhere in the library sources (comments stripped)
    for d, _, files in os.walk(os.path.join(LEAN, "FinProtoc")):
        for fn in files:
            if fn.endswith(".lean"):
                body = open(os.path.join(d, fn), encoding="utf-8").read()
                body = re.sub(r"/-.*?-/", "", body, flags=re.S)
                body = re.sub(r"--.*", "", body)
                m = FORBIDDEN.search(body)
                if m:
                    ctx.broken.append("forbidden construct %r in %s" % (m.group(0), fn))
    with Lock("lake"):
        p = sh(["lake", "build", "FinProtoc.Props." + module], cwd=LEAN, check=False, timeout=3000)
    if p.returncode != 0:
        errs = re.findall(r"error: (.*)", p.stdout + p.stderr)
        ctx.broken.append("lake build FinProtoc.Props.%s failed: %s" % (module, "; ".join(errs[:3])[:400]))
        return False
    os.makedirs(os.path.join(LEAN, ".audit"), exist_ok=True)
    af = os.path.join(LEAN, ".audit", "Audit%s.lean" % module)
    with open(af, "w") as fh:
        fh.write("import FinProtoc.Props.%s\n" % module)
        for n in names:
            fh.write("#print axioms %s\n" % n)
    p = sh(["lake", "env", "lean", af], cwd=LEAN, check=False, timeout=1200)
    text = p.stdout + p.stderr
    ok = True
    for n in names:
        m = re.search(r"'%s' depends on axioms: \[(.*?)\]" % re.escape(n), text, re.S)
        if m:
            ax = [a.strip() for a in m.group(1).split(",") if a.strip()]
        elif re.search(r"'%s' does not depend on any axioms" % re.escape(n), text):
            ax = []
        else:
            ctx.broken.append("theorem %s not found by #print axioms" % n)
            ok = False
            continue
        bad = [a for a in ax if a not in ALLOWED_AXIOMS]
        if bad:
            ctx.broken.append("theorem %s depends on %s" % (n, bad))
            ok = False
        else:
            ctx.obligations.append((n, ax))
    if ctx.tier == "thorough":
        # independent re-check of the compiled module (and everything it imports) by Lean's own olean checker
        p = sh(["lake", "env", "leanchecker", "FinProtoc.Props." + module], cwd=LEAN, check=False, timeout=3000)
        if p.returncode != 0:
            ctx.broken.append("leanchecker rejects FinProtoc.Props.%s: %s" % (module, (p.stdout + p.stderr)[-300:]))
            ok = False
        else:
            ctx.cov["leanchecker"] = "FinProtoc.Props.%s re-checked" % module
    return ok
