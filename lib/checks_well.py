"""C07 (complete, well-formed target code), C08 (meaning, not spelling)."""
import ast
import json
import os
import random
import re
import subprocess

from common import rm, scratch
from framework import check_obligations
import dslgen
import harness
import leandrv
import pipeline

# free text of extractor issues -> stable codes (signatures must not contain packet/field names)
ISSUE_CODES = [
    (r"pad (literal|argument).* not a (char|1-char)", "pad-literal-invalid"),
    (r"imported and not used", "go-unused-import"),
    (r"no method named put_", "rust-no-such-bufmut-method"),
    (r"checksum cast \((\w+)\) applied to boxed Integer", r"java-checksum-cast-\1"),
    (r"hashCode\(\).*calls itself", "java-hashcode-recursion"),
    (r"duplicate factory name", "factory-name-collision"),
    (r"(->|\.) applied to (value|pointer) member", "cpp-arrow-vs-member-kind"),
    (r"has no type|has no .* type|type .* is not|std::vector<>", "member-without-type"),
    (r"equals casts to|casts to", "type-name-mangled-in-boilerplate"),
    (r"object decode initialises", "go-object-decode-wrong-member"),
    (r"is not a member|are undeclared identifiers|names? .* but members|compares .* but members|members .* vs", "boilerplate-names-non-member"),
    (r"class name .* declared \d+ times|declared twice|duplicate member", "duplicate-declaration"),
    (r"empty body|invalid Python", "python-empty-body"),
    (r"constructor", "go-constructor-shape"),
    (r"decode type .* for member|put_\w+ of member|get_\w+ into member", "step-type-vs-member-type"),
    (r"Self \{ … \} lists", "rust-ctor-fields"),
    (r"register.*not a class|not an emitted struct|undefined class|undeclared factory|undefined factor|undeclared helper|cannot find type|unresolved import", "reference-to-undeclared"),
    (r"length patch", "length-patch-shape"),
    (r"match arm", "rust-match-arm-shape"),
    (r"indent", "python-indentation"),
    (r"registration key|key type|keyed by|factory key|match key|key parameter|registration cast| key$|\bkey\b.*registered", "factory-key-shape"),
]


BUILD_CODES = [
    (r"imported and not used", "go-unused-import"),
    (r"cannot find (type|struct)|undefined: |has not been declared|was not declared|cannot find symbol|is not defined", "reference-to-undeclared"),
    (r"redefinition|redeclar|already defined|conflicting declaration|duplicate", "duplicate-declaration"),
    (r"does not name a type|expected .* before|expected expression|SyntaxError|expected one of|expected identifier", "syntax"),
    (r"mismatched types|incompatible types|cannot convert|cannot use", "type-mismatch"),
    (r"no method named|has no member|no member named|has no attribute|undefined \(type", "no-such-member"),
]

CAUSED_BY = {
    "inline-name-not-unique": ["build/"],
    "length-target-not-a-packet": ["build/", "length-patch-shape", "unsupported-target-kind", "length-target-bookkeeping",
                                   "step-type-vs-member-type", "cpp-arrow-vs-member-kind", "reference-to-undeclared"],
    "field-name-is-keyword": ["build/rust/identifier", "build/java/", "build/cpp/identifier", "build/python/", "build/cpp/syntax",
                              "build/rust/syntax", "native-syntax/", "residue/", "other:", "python-empty-body"],
    "char-scalar-unsupported": ["incomplete/", "member-without-type", "other:unknown-type", "other:write-basic-type", "python-empty-body", "native-syntax/",
                                "residue/", "boilerplate-names-non-member", "other:eq-compares", "step-type-vs-member-type", "other:checksum-service-type",
                                "ill-scoped/", "other:", "go-constructor-shape", "length-patch-shape", "build/"],
    "names-not-case-stable": ["ill-scoped/", "incomplete/", "boilerplate-names-non-member", "type-name-mangled", "residue/", "go-constructor-shape",
                              "duplicate-declaration", "reference-to-undeclared", "other:", "native-syntax/", "rust-ctor-fields", "rust-match-arm-shape",
                              "factory-key-shape", "go-object-decode-wrong-member", "step-type-vs-member-type", "length-patch-shape",
                              "cpp-arrow-vs-member-kind", "build/"],
}


def issue_code(text):
    body = text.split(": ", 1)[-1] if ": " in text else text
    for pat, code in ISSUE_CODES:
        m = re.search(pat, body)
        if m:
            return m.expand(code) if "\\" in code else code
    return "other:" + re.sub(r"[^a-z]+", "-", re.sub(r"\b[A-Z]\w*\b|'[^']*'|\"[^\"]*\"|\d+", "", body).lower())[:40].strip("-")


def native_syntax(lang, files, d):
    """supporting check with a native parser where the sandbox has one: (ok, message)"""
    if lang == "python":
        for n, t in files.items():
            try:
                ast.parse(t)
            except SyntaxError as e:
                return False, "%s: %s" % (n, e.msg)
        return True, ""
    if lang == "go":
        for n, t in files.items():
            p = os.path.join(d, "x.go")
            with open(p, "w") as fh:
                fh.write(t)
            r = subprocess.run(["gofmt", "-e", p], capture_output=True, text=True)
            if r.returncode != 0:
                return False, "%s: %s" % (n, r.stderr.split("\n")[0][:120])
        return True, ""
    return True, ""


def build_one(job):
    """C++: the emitted header alone (a test that misuses the header must not count against the codec);
    other targets: the runner of /verif/runtime, errors are separated by location afterwards"""
    import shutil
    import checks_selftest as cs
    lang, d, mode = job
    if lang != "cpp":
        return cs.real_run(job)
    rt = os.path.join(cs.VERIF, "runtime", "cpp", "include")
    os.makedirs(os.path.join(d, "include"), exist_ok=True)
    for f in os.listdir(rt):
        shutil.copy(os.path.join(rt, f), os.path.join(d, "include", f))
    hdrs = sorted(f for f in os.listdir(os.path.join(d, "include")) if f not in os.listdir(rt))
    with open(os.path.join(d, "hdr.cpp"), "w") as fh:
        fh.write("".join('#include "include/%s"\n' % h for h in hdrs))
    try:
        p = subprocess.run(["g++", "-std=c++17", "-fsyntax-only", "-w", "-fmax-errors=5", "-I.", "-Iinclude", "hdr.cpp"], cwd=d,
                           capture_output=True, text=True, timeout=1800)
        return {"target": "cpp", "build": "ok" if p.returncode == 0 else "error", "build_log": p.stderr[-4000:], "tests": []}
    except Exception as e:
        return {"runner_error": "%s: %s" % (type(e).__name__, str(e)[:200])}


def real_builds(items, results):
    """build every clean-looking codec output with the target's own toolchain (supporting evidence for 'valid program')"""
    import concurrent.futures
    import checks_selftest as cs
    work = scratch("fpv-c07-")
    jobs, meta = [], []
    try:
        for i, ((prof, t), item) in enumerate(zip(items, results)):
            if "error" in item:
                continue
            for lang in cs.LANGS:
                ent = item["targets"].get(lang) or {}
                if "files" not in ent or "diags" in ent or "synerr" in ent:
                    continue
                if lang == "go" and not (re.search(r"^\s*GoPackage\s*=", t, re.M) and re.search(r"^\s*GoModule\s*=", t, re.M)):
                    continue
                if lang == "java" and not re.search(r"^\s*JavaPackage\s*=", t, re.M):
                    continue
                d = os.path.join(work, "%04d" % i, lang)
                cs.write_files(d, ent["files"])
                jobs.append((lang, d, "none"))
                meta.append((i, lang))
        with concurrent.futures.ThreadPoolExecutor(max_workers=14) as pool:
            res = list(pool.map(build_one, jobs))
    finally:
        rm(work)
    return {k: r for k, r in zip(meta, res)}


LEN_TARGET = """options {
    JavaPackage = "com.example.msg";
    GoPackage = "msg";
    GoModule = "example.com/msg";
}

root packet Msg {
    u16 Kind,
    u16 BodyLen @lengthOf(Body),
    %s,
    u32 Tail,
}

packet Leg {
    u8 No,
    string Sym,
}
"""


_OPTS = """options {
    JavaPackage = "com.example.msg";
    GoPackage = "msg";
    GoModule = "example.com/msg";
}

"""
# inline-object names that are not unique in the program: the same object in two packets, two different objects of
# one name, an inline object called like a packet
INLINE_NAMES = [
    _OPTS + "root packet NewOrder {\n    u32 Id,\n    repeat Leg {\n        u16 No,\n        string Sym,\n    },\n}\n\npacket CancelOrder {\n    u32 Id,\n    repeat Leg {\n        u16 No,\n        string Sym,\n    },\n}\n",
    _OPTS + "root packet NewOrder {\n    u32 Id,\n    Leg {\n        u16 No,\n    },\n}\n\npacket CancelOrder {\n    Leg {\n        string Sym,\n        u8 Side,\n    },\n}\n",
    _OPTS + "root packet Order {\n    u32 Id,\n    Leg {\n        u16 No,\n    },\n    Leg Other,\n}\n\npacket Leg {\n    string Sym,\n}\n",
]


def odd_length_target(text):
    """does a @lengthOf of this text (default layout) aim at something other than one packet-typed / inline / match member
    of ITS packet?"""
    m = re.search(r"@lengthOf\((\w+)\)", text)
    if not m:
        return False
    t = m.group(1)
    pk = set(re.findall(r"^(?:root )?packet (\w+)", text, re.M))
    # the top-level packet that holds the attribute
    start = text.rfind("\npacket ", 0, m.start())
    start = max(start, text.rfind("\nroot packet ", 0, m.start()), 0 if text.startswith(("packet ", "root packet ")) else -1)
    end = text.find("\n}\n", m.start())
    body = text[max(start, 0):end if end >= 0 else len(text)]
    for l in body.split("\n"):
        if not l.startswith("    ") or l.startswith("     "):
            continue          # members of the packet itself only (inline members are indented further)
        l = l.strip()
        if re.match(r"match \w+ as %s \{" % t, l) or re.match(r"%s \{" % t, l):
            return False
        if re.match(r"repeat \w+ %s\b|repeat %s\b" % (t, t), l):
            return True
        mm = re.match(r"(\w+) %s\b" % t, l)
        if mm and mm.group(1) in pk:
            return False
        if l == t + "," and t in pk:
            return False
    return True


def run_c07(ctx):
    check_obligations(ctx, "C07")
    n = 50 if ctx.tier == "quick" else 800
    rng = random.Random(ctx.seed * 97 + 13)
    items = []
    for i in range(n):
        # one feature at a time, so that a finding can be attributed to the construct that causes it
        prof = ["safe", "acro", "char", "names", "kw", "safe", "len"][i % 7]
        cfg = {"safe": dslgen.Cfg(), "char": dslgen.Cfg(allow_char=True), "names": dslgen.Cfg(odd_names=True), "kw": dslgen.Cfg(), "acro": dslgen.Cfg(acronym_packets=True),
               "len": dslgen.Cfg(length_any_target=True)}[prof]
        if prof == "kw":
            saved = list(dslgen.FLD_NAMES)
            dslgen.FLD_NAMES[:] = rng.sample(dslgen.KEYWORD_NAMES, 6) + saved[:10]
            try:
                t = dslgen.render(dslgen.gen_program(rng, cfg))
            finally:
                dslgen.FLD_NAMES[:] = saved
            if not any(re.search(r"\b%s\b" % k, t) for k in dslgen.KEYWORD_NAMES):
                prof = "safe"
        else:
            t = dslgen.render(dslgen.gen_program(rng, cfg))
        if prof == "char" and not re.search(r"\bchar \w", t):
            prof = "safe"
        if prof == "names" and not any(nm in t for nm in dslgen.ODD_NAMES):
            prof = "safe"
        if prof == "len" and not odd_length_target(t):
            prof = "safe"
        items.append((prof, t))
    items += [("safe", t) for t in pipeline.corpus_texts()]
    # `char` scalars and lists of them under either byte order (Rust and Java serve them; their absence from the Go / Python /
    # C++ tables is the known finding char-scalar-unsupported)
    items += [("char", _OPTS.replace("options {", "options {\n    LittleEndian = %s;" % le) +
               "root packet Quote {\n    u32 SeqNo,\n    char Side,\n    repeat char Flags,\n    string Note,\n}\n") for le in ("true", "false")]
    am = pipeline.all_kinds_matrix()
    items += [("safe", t) for t in (am if ctx.tier != "quick" else am[::4])]      # every field kind x option combination (quick: every fourth)
    items += [("inl", t) for t in INLINE_NAMES]
    # packet names with runs of capitals in every position except a match table (see `acro_known` below)
    items += [("acro", _OPTS + "packet MDEntry {\n    u32 Px,\n    string Sym,\n}\n\npacket Leg {\n    u16 No,\n}\n\nroot packet MarketData {\n    u8 k,\n    repeat MDEntry entries,\n"
               "    repeat TCPHeader {\n        u16 Port,\n    },\n    repeat Leg legs,\n    MDEntry last,\n    FXLeg {\n        u8 Side,\n    },\n    NoMDEntries,\n}\n\n"
               "packet NoMDEntries {\n    u16 n,\n    repeat string names,\n}\n")]
    items += [("len", LEN_TARGET % decl) for decl in ("string Body", "u32 Body", "char[4] Body", "repeat u16 Body", "repeat Leg Body", "repeat string Body")]
    texts = [t for _, t in items]
    results = pipeline.run_pipeline(texts, "c07-%s-%d" % (ctx.tier, ctx.seed))
    import checks_selftest as cs
    builds = real_builds(items, results)
    pending = {}       # signature -> {status: (what, replay, lang)}: decided once every occurrence is known
    d = scratch()
    try:
        for idx, ((prof, t), item) in enumerate(zip(items, results)):
            if "error" in item:
                ctx.count("rejected_by_compiler")
                continue
            for lang in pipeline.ALL_TARGETS:
                ent = item["targets"].get(lang) or {}
                if "diags" in ent or "synerr" in ent:
                    ctx.count("rejected_by_compiler")
                    continue
                rep = {"dsl": t, "target": lang, "profile": prof}
                if "files" not in ent:
                    ctx.finding("no-output/%s/%s" % (lang, ent.get("panic_at") or ent.get("err", "?")[:40]), "compilation neither succeeds nor reports a diagnostic", dict(rep, run={k: v for k, v in ent.items() if k != "files"}))
                    continue
                ctx.count("programs")
                ok = True
                # Does the target's own toolchain accept the codec of this output?  A line outside my statement templates, or a
                # typing / scoping rule of mine that objects, is a broken correspondence (T2); it is a demonstrated violation of
                # C07 only when the real toolchain rejects the output too.  Where there is no toolchain verdict (Lua; Go / Java
                # without their package options) the template verdict stands.
                rb0 = builds.get((idx, lang))
                builds_clean = (rb0 is not None and "runner_error" not in rb0 and not cs.codec_build_errors(lang, ent.get("files") or {}, rb0))

                has_verdict = rb0 is not None and "runner_error" not in rb0

                def real_finding(sig, what, replay=None, found=True, _bc=builds_clean, _hv=has_verdict, _l=lang):
                    template_level = (sig.startswith(("residue/", "issue/", "incomplete/", "ill-scoped/"))
                                      or "[residue/" in what or "[issue/" in what or "[incomplete/" in what)
                    if not found:
                        status = "no-input"
                    elif not template_level:
                        status = "direct"             # marker text, missing output, a real build error: the property itself
                    elif _bc:
                        status = "clean"              # the toolchain accepts what my templates reject
                    elif _hv:
                        status = "confirmed"          # … and rejects it too
                    else:
                        status = "unknown"            # no toolchain verdict for this output
                    slot = pending.setdefault(sig, {})
                    slot.setdefault(status, (what, replay, _l))
                    return True
                acro_known = False
                if prof == "acro":
                    # packet names that change under ToCamel (MDEntry -> Mdentry): Go, Rust and C++ use the raw and the converted spelling
                    # side by side wherever such a packet is declared or referred to (known cause names-not-case-stable); Python does
                    # so in ONE place only, the register(...) line of a match table; Java in none
                    unstable = [nm for nm in dslgen.ODD_PKT_NAMES if re.search(r"\b%s\b" % nm, t)]
                    acro_known = bool(unstable) and (lang in ("go", "rust", "cpp") or
                                                     (lang == "python" and any(re.search(r":\s*%s\s*,?\s*$" % nm, t, re.M) for nm in unstable)))
                if prof not in ("safe", "acro") or acro_known:
                    cause = "names-not-case-stable" if acro_known else {"char": "char-scalar-unsupported", "names": "names-not-case-stable", "kw": "field-name-is-keyword",
                             "len": "length-target-not-a-packet", "inl": "inline-name-not-unique"}[prof]

                    def collapsed(sig, what, replay=None, found=True, _c=cause, _l=lang):
                        # only findings this construct can plausibly cause are folded into its signature
                        if any(x in sig for x in CAUSED_BY[_c]):
                            return real_finding("%s/%s" % (_c, _l), "[%s] %s" % (sig, what), replay, found)
                        return real_finding(sig, what, replay, found)
                    ctx_finding = collapsed
                else:
                    ctx_finding = real_finding
                # (the validators identify a packet by its DSL name and a struct by its emitted name: with names that change under the
                # case conversion the two do not meet, so these outputs are decided by the target toolchains as well)
                by_build_only = prof == "inl" or (prof == "acro" and not acro_known and lang != "lua")
                if by_build_only:
                    # the wire specification (and with it the extractors' struct tables and the validators) identifies a packet by its
                    # name; a program that uses one name for two objects is outside their domain — decided by the target toolchains alone
                    ent = dict(ent, extract={"residue": [], "markers": [], "issues": []}, conform={})
                elif lang == "lua":
                    import lua as tvlua
                    ex = tvlua.extract(ent["files"])
                    ent = dict(ent, extract={k: ex.get(k) for k in ("residue", "markers", "issues")})
                ex = ent.get("extract")
                if ex is None:
                    ctx_finding("tool/extractor-crash/" + lang, ent.get("extract_error", "?"), rep, False)
                    continue
                for r in ex["residue"] or []:
                    ok = False
                    ctx_finding("residue/%s/%s" % (lang, r["where"].split(" of ")[0]), "emitted line outside the target's statement templates: %r" % r["text"][:100], dict(rep, residue=r))
                for m in ex["markers"] or []:
                    ok = False
                    ctx_finding("marker/%s/%s" % (lang, m["marker"].strip()), "placeholder / 'unsupported' text in the output: %r" % m["text"][:100], dict(rep, marker=m))
                for i in ex["issues"] or []:
                    ok = False
                    ctx_finding("issue/%s/%s" % (lang, issue_code(i)), i[:200], dict(rep, issue=i))
                c = ent.get("conform") or {}
                if "load_error" in c:
                    ok = False
                    ctx_finding("ill-scoped/%s" % lang, "the emitted program uses an identifier that is not declared: " + c["load_error"], dict(rep, load_error=c["load_error"]))
                # a length field that is not directly followed by its target is outside the validator's domain (decided by direct
                # evaluation in C04): the reasons reported for such a packet are artefacts of the unsupported plan
                far = {r["packet"] for r in c.get("reasons", []) if r["attr"] in ("target-not-adjacent", "length-plan/far")}
                for r in c.get("reasons", []):
                    if r["packet"] in far:
                        ctx.count("packets_with_unsupported_length_layout")
                        continue
                    if r["attr"] in ("missing-struct", "member-count", "missing-step", "extra-step", "skipped"):
                        ok = False
                        ctx_finding("incomplete/%s/%s/%s" % (lang, r["kind"], r["attr"]), "%s.%s: %s (expected %s, emitted %s)" % (r["packet"], r["field"], r["attr"], r["expected"], r["got"]), dict(rep, reason=r))
                if lang == "go" and not re.search(r"^\s*GoPackage\s*=", t, re.M):
                    ok = False
                    real_finding("option-missing/go-package", "without a GoPackage option the Go files start with an empty 'package' clause (not a Go program); no diagnostic", rep)
                elif lang == "java" and not re.search(r"^\s*JavaPackage\s*=", t, re.M):
                    ok = False
                    real_finding("option-missing/java-package", "without a JavaPackage option the Java files start with 'package ;' (not a Java program); no diagnostic", rep)
                else:
                    good, msg = native_syntax(lang, ent["files"], d)
                    if not good:
                        ok = False
                        ctx_finding("native-syntax/%s" % lang, "the target's own parser rejects an emitted file: " + msg, dict(rep, message=msg))
                rb = builds.get((idx, lang))
                if rb is not None:
                    if "runner_error" in rb:
                        real_finding("tool/runner/%s" % lang, rb["runner_error"], rep, False)
                    else:
                        ctx.count("codec_outputs_built_with_the_target_toolchain")
                        errs = cs.codec_build_errors(lang, ent["files"], rb)
                        for (f, no, msg) in errs[:1]:     # the first message only: later ones are usually its consequences
                            ok = False
                            code = cs.code_of(msg, cs.REAL_CODES + BUILD_CODES, "other")
                            ctx_finding("build/%s/%s" % (lang, code), "the %s toolchain rejects the emitted codec: %s:%d: %s" % (lang, f, no, msg[:160]),
                                        dict(rep, file=f, line=no, message=msg,
                                             emitted="\n".join((ent["files"].get(f) or ent["files"].get(f.split("/", 1)[-1]) or "").split("\n")[max(0, no - 6):no + 3])))
                        if not errs:
                            ctx.count("codec_outputs_that_build")
                if ok:
                    ctx.count("programs_clean")
                    ctx.sample({"target": lang, "dsl": t[:200], "verdict": "every line consumed, no marker, scoped, complete"}, 3)
    finally:
        rm(d)
    # what is ON DISK after `compile` is the emitted program: the command writes over whatever an earlier, longer output left
    # in the directory, and every file must be exactly what the generator produced (else the file is not the valid program)
    import checks_front as _cf
    import checks_driver as _cd
    from common import build_harness as _bh
    _hb, _cbin = _bh()
    dd = scratch()
    try:
        done = 0
        for (prof, t), item in zip(items, results):
            if done >= (3 if ctx.tier == "quick" else 25) or "error" in item or prof != "safe":
                continue
            tg = {l: (item["targets"].get(l) or {}).get("files") for l in pipeline.ALL_TARGETS}
            if not all(tg.values()):
                continue
            done += 1
            f = os.path.join(dd, "p.dsl")
            with open(f, "w") as fh:
                fh.write(t)
            o = os.path.join(dd, "out")
            rm(o)
            for l, files in tg.items():
                for rel, body in files.items():
                    pth = os.path.join(o, l, rel)
                    os.makedirs(os.path.dirname(pth), exist_ok=True)
                    with open(pth, "w", encoding="utf-8", newline="") as fh:
                        fh.write(body + "\n/* tail of an earlier, longer output */\n" * 30)
            args = ["compile", "-f", f]
            for l in pipeline.ALL_TARGETS:
                args += [_cd.FLAG[l], os.path.join(o, l)]
            rc, out, err = _cf.cli(_cbin, args, dd)
            ctx.count("compiled_over_existing_output")
            for l, files in tg.items():
                bad = [rel for rel, body in files.items()
                       if not os.path.exists(os.path.join(o, l, rel)) or open(os.path.join(o, l, rel), encoding="utf-8", newline="").read() != body]
                if rc != 0 or bad:
                    ctx.finding("disk/%s/not-the-generated-file" % l,
                                "after `compile` into a directory that held a longer earlier output, %s on disk is not the program the generator produced (exit %d)"
                                % (bad[0] if bad else "?", rc), {"dsl": t, "target": l, "files": bad[:5]})
    finally:
        rm(dd)
    for sig in sorted(pending):
        slot = pending[sig]
        if "direct" in slot:
            what, replay, _ = slot["direct"]
            ctx.finding(sig, what, replay, True)
        elif "clean" in slot:
            # the same complaint about an output the toolchain accepts: whatever made another occurrence fail to build
            # (a known finding of that program, usually) was not this
            what, replay, l = slot["clean"]
            ctx.finding(sig, what + " — the %s toolchain accepts this output wherever it was built: correspondence T2 (statement templates of tv/%s) broken, "
                        "no failing input" % (l, l), dict(replay or {}, broken="correspondence T2: tv extractor templates vs the emitted text"), False)
        elif "confirmed" in slot or "unknown" in slot:
            what, replay, _ = slot.get("confirmed") or slot["unknown"]
            ctx.finding(sig, what, replay, True)
        else:
            what, replay, _ = slot["no-input"]
            ctx.finding(sig, what, replay, False)
    if ctx.broken and not ctx.violations:
        ctx.finding("obligation/C07", "; ".join(ctx.broken)[:500], {"broken": ctx.broken}, False)
    ctx.cov.update({"disagreements_checked": ctx.cov.get("programs", 0), "dsl_texts": len(texts),
                    "explanation": "every (program, target): strict extraction (residue), marker scan, boilerplate identifier checks, name resolution, "
                                   "completeness (verified validators ⇒ Complete by complete_of_conf), native parsers for Go and Python"})
    return ctx.finish("proof")


# --------------------------------------------------------------------------- C08

def alias_rewrite(p, rng):
    for pk in p["packets"]:
        for f in all_fields(pk["fields"]):
            if f["kind"] in ("scalar", "length", "checksum") and not f.get("typeless") and rng.random() < 0.7:
                f["alias"] = not f.get("alias")
            if f["kind"] == "dyn" and rng.random() < 0.7:
                f["spelling"] = "char[]" if f["spelling"] == "string" else "string"
    return p


def all_fields(fields):
    for f in fields:
        yield f
        if f["kind"] == "inline":
            yield from all_fields(f["fields"])


def zchar_rewrite(p, rng):
    """zchar[n] <-> char[n] with explicit NUL right padding (top-level fields only: attributes are not allowed in inline objects)"""
    for pk in p["packets"]:
        for f in pk["fields"]:
            if f["kind"] == "fixed" and f["z"] and not f.get("pad") and rng.random() < 0.8:
                f["z"] = False
                f["pad"] = ("right", "'\\x00'")
    return p


def attr_place_rewrite(p, rng):
    for pk in p["packets"]:
        for f in pk["fields"]:
            if f["kind"] in ("length", "checksum") and rng.random() < 0.8:
                f["prefixed"] = not f["prefixed"]
    return p


def keylist_rewrite(p, rng):
    for pk in p["packets"]:
        for f in pk["fields"]:
            if f["kind"] == "match":
                new = []
                for pr in f["pairs"]:
                    if pr["list"] and rng.random() < 0.8:
                        new += [{"keys": [k], "list": False, "target": pr["target"]} for k in pr["keys"]]
                    else:
                        new.append(pr)
                f["pairs"] = new
    return p


def doc_rewrite(p, rng):
    for pk in p["packets"]:
        for f in all_fields(pk["fields"]):
            if "doc" in f and f["kind"] in ("scalar", "fixed", "dyn", "metaref", "ref", "length", "checksum"):
                # a doc is free text: the words of the DSL itself mean nothing inside it
                f["doc"] = None if f.get("doc") else rng.choice(["`added doc`", "`was zchar[8] before v2, now char[] / repeat u8`",
                                                                  "`root packet match x as y { 1 : A } @lengthOf(z) string`"])
    return p


def default_options_rewrite(p, rng):
    have = {k for k, _ in p["options"]}
    for k, v in (("LittleEndian", "false"), ("StringPrefixLenType", "u16"), ("ArrayPrefixLenType", "u16"), ("FixedStringPadFromLeft", "false"), ("FixedStringPadChar", "' '")):
        if k not in have and rng.random() < 0.7:
            p["options"].append((k, v))
    return p


def default_pad_rewrite(p, rng):
    """explicit default padding (@rightPad(' ')) <-> none — only when the configuration's padding is the default"""
    opts = dict(p["options"])
    if opts.get("FixedStringPadFromLeft") == "true" or opts.get("FixedStringPadChar", "' '") != "' '":
        return p
    for pk in p["packets"]:
        for f in pk["fields"]:
            if f["kind"] == "fixed" and not f["z"] and not f.get("pad") and rng.random() < 0.7:
                f["pad"] = ("right", "' '")
    return p


def meta_inline_rewrite(p, rng):
    """a MetaData-typed field -> the inlined type"""
    metas = {}
    for m in p["metas"]:
        for e in m["entries"]:
            metas[e["name"]] = e
    for pk in p["packets"]:
        for i, f in enumerate(pk["fields"]):
            if f["kind"] == "metaref" and rng.random() < 0.8:
                e = dict(metas[f["meta"]])
                e["name"] = f["name"] if f["named"] else f["meta"]
                e["repeat"] = f["repeat"]
                e["doc"] = None
                if f.get("pad"):
                    e["pad"] = f["pad"]
                pk["fields"][i] = e
    return p


def empty_pad_rewrite(p, rng):
    """`@leftPad()` <-> `@leftPad(' ')`: the argument defaults to a space"""
    for pk in p["packets"]:
        for f in pk["fields"]:
            if f.get("pad") and f["pad"][1] in ("", "' '") and rng.random() < 0.7:
                f["pad"] = (f["pad"][0], "' '" if f["pad"][1] == "" else "")
    return p


REWRITES = [("empty-pad", empty_pad_rewrite), ("alias", alias_rewrite), ("zchar", zchar_rewrite), ("attr-placement", attr_place_rewrite), ("key-list", keylist_rewrite),
            ("doc", doc_rewrite), ("default-options", default_options_rewrite), ("default-pad", default_pad_rewrite),
            ("metadata-inline", meta_inline_rewrite)]


def run_c08(ctx):
    import checks_driver
    checks_driver.regenerate_facts(ctx)     # T1: option / alias / default tables rewritten from the current source
    check_obligations(ctx, "C08")
    import copy
    import checks_front
    import textgen
    n = 30 if ctx.tier == "quick" else 500
    rng = random.Random(ctx.seed * 53 + 29)
    pairs = []   # (rewrite name, text a, text b)
    for _ in range(n):
        p = dslgen.gen_program(rng, dslgen.Cfg())
        a = dslgen.render(p)
        for name, fn in REWRITES:
            q = fn(copy.deepcopy(p), rng)
            b = dslgen.render(q)
            if b != a:
                pairs.append((name, a, b))
        # layout-level rewrites: whitespace, comments, separators
        pairs.append(("whitespace+comments", a, textgen.relayout(a, rng, comments=0.2)))
        pairs.append(("separators", a, re.sub(r";(\s*\n)", r"\1", a)))
        if "//" not in a:
            # line breaks are white space: the whole program on one line, and every definition on a line of its own
            pairs.append(("one-line", a, " ".join(textgen.tokens_of(a)) + "\n"))
            pairs.append(("one-line", a, re.sub(r"\n(?!(root |packet |options|MetaData))", " ", a)))
        # several rewrites at once
        q = copy.deepcopy(p)
        for name, fn in rng.sample(REWRITES, 3):
            q = fn(q, rng)
        b = dslgen.render(q)
        if b != a:
            pairs.append(("combined", a, textgen.relayout(b, rng, comments=0.1)))
    # a length / checksum field that writes its type and shares its NAME with a MetaData entry of another width: the written type
    # is the field's type in either attribute placement (on the pinned tree the suffix form took the entry's type: fix 2df72d0)
    sh = os.path.join(os.path.dirname(os.path.dirname(os.path.abspath(__file__))), "corpus", "dsl")
    pairs.append(("attr-placement/name-shadows-metadata", open(os.path.join(sh, "shadow_suffix.dsl")).read(), open(os.path.join(sh, "shadow_prefix.dsl")).read()))
    # one fixed string, every way of writing it: zchar[n] / char[n] with explicit NUL right padding / through a MetaData entry /
    # through a reference to such an entry / attribute on a MetaData-typed field; plain and repeated, both byte orders
    for le in ("true", "false"):
        for rep in ("", "repeat "):
            def prog(meta, field):
                return ("options {\n    LittleEndian = %s;\n}\n\n%sroot packet Quote {\n    u32 SeqNo,\n    %s\n    u16 Tail,\n}\n" % (le, meta, field))
            forms = [("inline-zchar", "", "%szchar[8] Sym," % rep),
                     ("explicit-nul", "", "@rightPad('\\x00')\n    %schar[8] Sym," % rep),
                     ("meta-zchar", "MetaData M {\n    zchar[8] Sym `s`,\n}\n\n", "%sSym," % rep),
                     ("meta-zchar-named", "MetaData M {\n    zchar[8] Zs `z`,\n}\n\n", "%sZs Sym," % rep),
                     ("meta-reference", "MetaData M {\n    zchar[8] Zs `z`,\n    Zs Sym `s`,\n}\n\n", "%sSym," % rep),
                     ("meta-char-attr", "MetaData M {\n    char[8] Sym `s`,\n}\n\n", "@rightPad('\\x00')\n    %sSym," % rep)]
            base = prog(forms[0][1], forms[0][2])
            for name, meta, field in forms[1:]:
                pairs.append(("fixed-string-spelling/" + name, base, prog(meta, field)))
            # the same for the default padding: none / spelled out / empty argument / through MetaData
            dforms = [("plain", "", "%schar[8] Sym," % rep),
                      ("explicit-default", "", "@rightPad(' ')\n    %schar[8] Sym," % rep),
                      ("empty-argument", "", "@rightPad()\n    %schar[8] Sym," % rep),
                      ("meta-char", "MetaData M {\n    char[8] Sym `s`,\n}\n\n", "%sSym," % rep),
                      ("meta-char-attr", "MetaData M {\n    char[8] Sym `s`,\n}\n\n", "@rightPad(' ')\n    %sSym," % rep)]
            dbase = prog(dforms[0][1], dforms[0][2])
            for name, meta, field in dforms[1:]:
                pairs.append(("default-pad-spelling/" + name, dbase, prog(meta, field)))
    ALL = pipeline.ALL_TARGETS
    ra = harness.run_ops([{"op": "gen", "text": a, "order": ALL, "fresh": True} for _, a, _ in pairs])
    rb = harness.run_ops([{"op": "gen", "text": b, "order": ALL, "fresh": True} for _, _, b in pairs])
    for (name, a, b), xa, xb in zip(pairs, ra, rb):
        ctx.count("pairs")
        ctx.count("rewrite/" + name)
        fa, fb = checks_front.files_of(xa), checks_front.files_of(xb)
        if fa is None or fb is None:
            if (fa is None) != (fb is None):
                ctx.finding("accept-differs/" + name, "one spelling compiles, the equivalent one does not", {"a": a, "b": b, "ra": strip_files(xa), "rb": strip_files(xb)})
            continue
        bad = []
        for lang in ALL:
            if fa[lang] != fb[lang]:
                names = sorted(set(fa[lang]) | set(fb[lang]))
                bad.append((lang, [k for k in names if fa[lang].get(k) != fb[lang].get(k)][:3]))
        if bad:
            for lang, files in bad:
                k = files[0] if files else "?"
                ctx.finding("output-differs/%s/%s" % (name, lang), "equivalent spellings (%s) compile to different %s output (%s)" % (name, lang, k),
                            {"a": a, "b": b, "target": lang, "file": k, "out_a": fa[lang].get(k, "")[:2000], "out_b": fb[lang].get(k, "")[:2000]})
        else:
            ctx.count("pairs_identical")
            ctx.sample({"rewrite": name, "verdict": "all six outputs byte-identical"}, 3)
    # attribute locality: a padding attribute on one MetaData-typed field must not change the others
    # (char[n] and zchar[n] entries; the attributed field first / in the middle / last; another packet using the entry)
    for ty in ("char[6]", "zchar[6]"):
        for pos in (0, 1, 2):
            for attr_txt in ("@leftPad('0')", "@rightPad('0')", "@leftPad(' ')"):
                names = ["a", "b", "c"]
                def prog(with_attr):
                    body = ""
                    for i, nm in enumerate(names):
                        body += "    %sSym %s,\n" % ((attr_txt + "\n    ") if (with_attr and i == pos) else "", nm)
                    return ("MetaData M {\n    %s Sym `s`,\n}\n\nroot packet P {\n%s    Q q,\n}\n\npacket Q {\n    Sym d,\n}\n" % (ty, body))
                base, attr = harness.run_ops([{"op": "gen", "text": prog(False), "order": ALL, "fresh": True},
                                              {"op": "gen", "text": prog(True), "order": ALL, "fresh": True}])
                fa, fb = checks_front.files_of(base), checks_front.files_of(attr)
                if not (fa and fb):
                    continue
                others = [n for i, n in enumerate(names) if i != pos] + ["d"]
                pat = r"\b(%s)\b" % "|".join(others + [n.upper() for n in others])
                for lang in pipeline.CODEC_TARGETS:
                    for k in fa[lang]:
                        la = [l for l in fa[lang][k].split("\n") if re.search(pat, l) and "6" in l]
                        lb = [l for l in fb[lang].get(k, "").split("\n") if re.search(pat, l) and "6" in l]
                        if la != lb:
                            ctx.finding("attribute-leaks/" + lang, "a padding attribute written on field %s changes the code of the other fields typed by the same MetaData entry" % names[pos],
                                        {"dsl": prog(True), "target": lang, "file": k, "before": la[:6], "after": lb[:6]})
                ctx.count("attribute_locality_checked")
    if ctx.broken and not ctx.violations:
        ctx.finding("obligation/C08", "; ".join(ctx.broken)[:500], {"broken": ctx.broken}, False)
    ctx.cov.update({"evaluations": len(pairs), "distinct_nontrivial": len({b for _, _, b in pairs}),
                    "rule": "every meaning-preserving rewrite of DESIGN §8 C08 applied at random subsets of sites, alone and combined; both spellings compiled by all six real generators and byte-compared"})
    return ctx.finish("proof")


def strip_files(x):
    return {"runs": [{k: v for k, v in r.items() if k != "files"} for r in x.get("runs", [])]} if "runs" in x else x


TABLE = {"C07": run_c07, "C08": run_c08}
