"""Drive the Lean model driver (`fpdriver`, a core-only lean_exe) over JSON lines."""
import json
import os
import subprocess

from common import LEAN, Lock, sh, log, CACHE, tree_hash

FPDRIVER = os.path.join(LEAN, ".lake/build/bin/fpdriver")


def build_lean(targets=("FinProtoc", "fpdriver")):
    with Lock("lake"):
        p = sh(["lake", "build"] + list(targets), cwd=LEAN, check=False, timeout=3000)
        return p.returncode == 0, p.stdout + p.stderr


def run_ops(reqs, timeout=None):
    payload = "".join(json.dumps(r) + "\n" for r in reqs)
    if timeout is None:
        timeout = max(3600, 5 * len(reqs))       # generous: a verdict must not depend on how busy the machine is
    p = subprocess.run([FPDRIVER], input=payload, capture_output=True, text=True, timeout=timeout)
    lines = [l for l in p.stdout.split("\n") if l]
    out = []
    for l in lines:
        try:
            out.append(json.loads(l))
        except ValueError:
            out.append({"error": "bad json from model: " + l[:200]})
    while len(out) < len(reqs):
        out.append({"error": "model driver died: " + p.stderr[-300:]})
    return out
