"""Seeded generator of PacketDSL programs (abstract form + renderer).

An abstract program is a dict
  {"options": [(name, value)], "metas": [{"name", "entries": [entry]}], "packets": [packet]}
  packet = {"name", "root": bool, "fields": [field]}
  field  = {"kind": scalar|fixed|dyn|ref|inline|match|length|checksum|meta, "name", ...}
Rendering is separate so that the same abstract program can be laid out in many ways
(C08 rewrites, C10 relayouts).  Every random choice comes from the one `random.Random`
handed in, so a seed replays exactly.
"""
import random

SCALARS = ["u8", "u16", "u32", "u64", "i8", "i16", "i32", "i64", "f32", "f64", "char"]
ALIAS = {"u8": "uint8", "u16": "uint16", "u32": "uint32", "u64": "uint64", "i8": "int8", "i16": "int16",
         "i32": "int32", "i64": "int64", "f32": "float32", "f64": "float64", "char": "char"}
UNSIGNED = ["u8", "u16", "u32", "u64"]
INTS = ["u8", "u16", "u32", "u64", "i8", "i16", "i32", "i64"]
PADCHARS = ["'0'", "' '", "'\\x00'", ""]      # "" = `@leftPad()`: a space
PKT_NAMES = ["Logon", "Logout", "Heartbeat", "NewOrder", "Cancel", "ExecReport", "Quote", "Trade", "Reject",
             "Status", "Detail", "Leg", "Party", "Ack", "Snapshot", "Entry"]
FLD_NAMES = ["MsgType", "BodyLen", "Body", "SeqNum", "ClOrdID", "Price", "Qty", "Side", "Symbol", "Account", "Text",
             "Flags", "Count", "Ts", "UserName", "Password", "Rate", "Venue", "Kind", "Code", "Memo", "Tag", "Level",
             "OrdType", "Tif", "Ccy", "Checksum", "Legs", "Parties", "Extra", "Note", "Refs"]
# field names whose snake / lowerCamel form is a reserved word of at least one target language (C07 profile "kw")
KEYWORD_NAMES = ["Ref", "Type", "Class", "Default", "Match", "Use", "Move", "Loop", "Mod", "Struct", "Enum", "Final", "New", "For", "If",
                 "In", "Is", "Not", "Pass", "Def", "Try", "Int", "Long", "Short", "Float", "Double", "Void", "Auto", "Const", "Switch",
                 "Case", "Do", "Return", "This", "Throw", "Union", "Using", "While", "Fn", "Let", "Mut", "Pub", "Impl", "Where", "As",
                 "Lambda", "Import", "From", "Global", "With", "Yield", "Package", "Interface"]
ODD_NAMES = ["msg_type", "a1b", "_x", "HTTPServer2", "clOrdId", "x", "ID", "my_Field", "zcharLegacy", "stringy", "repeatCount", "rootCause"]
# packet names with runs of capitals, digits and underscores: ToCamel(ToSnake(x)) is not ToCamel(x) for them, so every place that
# derives a class / file / module name must derive it the same way
JAVA_PACKAGES = ["com.example.msg", "com.example.msg", "com.acme.fix44", "io.ouchV5.codec"]
GO_PACKAGES = ["msg", "msg", "fix44", "ouchV5", "sample_bin", "itch50"]
ODD_PKT_NAMES = ["MDEntry", "TCPHeader", "NoMDEntries", "FXLeg", "IOI", "L2Quote"]

# algorithm names are free text between quotes: characters that mean something to a formatter, a path or a shell are names too
CHECKSUM_ALGOS = ['"CRC32"', '"SUM8"', '"XOR"', '"crc32"', '"Adler32"', '"SUM%x"', '"CRC%d%%"', '"100%"', '"CRC-32/ISO HDLC"', '"%s"']


class Cfg:
    """Generation profile."""

    def __init__(self, **kw):
        self.max_packets = 5
        self.max_fields = 6
        self.allow_char = False          # `char` scalar (absent from go/py/cpp tables)
        self.allow_float = True
        self.allow_meta = True
        self.allow_inline = True
        self.allow_ref = True
        self.allow_match = True
        self.allow_length = True
        self.allow_checksum = True
        self.allow_pad_attr = True
        self.allow_zchar = True
        self.allow_repeat = True
        self.allow_tag = True
        self.odd_names = False
        self.options = True
        self.string_keys = True
        self.inline_depth = 2
        self.pad_options = True          # FixedStringPad* options
        self.u64_prefix = True
        self.unique_inline = True
        self.meta_alias = True           # `Entry NewName` reference declarations inside MetaData
        self.typeless = True             # length / checksum fields written without a type (named after a MetaData entry)
        self.far_length = True           # fields between a length field and its target
        self.inline_rich = True          # inline objects may hold references, match fields, MetaData-typed fields
        self.meta_pad_attr = True        # padding attributes on MetaData-typed fixed strings
        self.length_any_target = False   # @lengthOf aimed at a string / scalar / fixed string / list / inline object (the visitor accepts any member)
        self.more_attrs = True           # docs on length / checksum fields, @tag on every kind of field, several MetaData / options blocks
        self.wide_keys = True            # match keys that are 64-bit integers, fixed strings or MetaData-typed members
        self.def_order = True            # top-level definitions in any order (MetaData / options after the packets using them)
        self.acronym_packets = False     # packet names with runs of capitals / digits / underscores (ODD_PKT_NAMES)
        self.__dict__.update(kw)


def gen_options(rng, cfg):
    opts = []
    if not cfg.options:
        return opts
    if rng.random() < 0.6:
        opts.append(("LittleEndian", rng.choice(["true", "false"])))
    pf = UNSIGNED if cfg.u64_prefix else UNSIGNED[:3]
    if rng.random() < 0.6:
        opts.append(("StringPrefixLenType", rng.choice(pf)))
    if rng.random() < 0.6:
        opts.append(("ArrayPrefixLenType", rng.choice(pf)))
    if cfg.pad_options:
        if rng.random() < 0.25:
            opts.append(("FixedStringPadFromLeft", rng.choice(["true", "false"])))
        if rng.random() < 0.25:
            opts.append(("FixedStringPadChar", rng.choice(["'0'", "' '", "'\\x00'"])))
    # package names are the user's: digits next to letters, capitals and underscores are ordinary in them (fix44, ouchV5);
    # the choice reuses the draw that decides whether the option is present, so that the rest of the stream is unchanged
    r = rng.random()
    if r < 0.5:
        opts.append(("JavaPackage", '"%s"' % JAVA_PACKAGES[int(r * 2 * len(JAVA_PACKAGES))]))
    r = rng.random()
    if r < 0.5:
        g = GO_PACKAGES[int(r * 2 * len(GO_PACKAGES))]
        opts.append(("GoPackage", '"%s"' % g))
        opts.append(("GoModule", '"example.com/%s"' % g))
    rng.shuffle(opts)
    return opts


def _names(rng, pool, n, odd=False):
    pool = list(pool)
    if odd:
        pool += ODD_NAMES
    rng.shuffle(pool)
    out = pool[:n]
    i = 0
    while len(out) < n:
        out.append("F%d" % i)
        i += 1
    return out


def gen_simple_field(rng, cfg, name, metas, allow_repeat=True, in_inline=False):
    """A field that needs no other declaration (scalar / fixed / dyn / meta-typed)."""
    kinds = ["scalar", "scalar", "fixed", "dyn"]
    if cfg.allow_meta and metas and (not in_inline or cfg.inline_rich):
        kinds.append("metaref")
        if len(metas) > 0 and cfg.inline_rich:
            kinds.append("metaref")
    k = rng.choice(kinds)
    rep = cfg.allow_repeat and allow_repeat and rng.random() < 0.25
    doc = ("`%s doc`" % name if rng.random() < 0.85 else "`%s %%s of 100%%`" % name) if rng.random() < 0.3 else None
    if k == "scalar":
        pool = [s for s in SCALARS if (cfg.allow_char or s != "char") and (cfg.allow_float or s[0] != "f")]
        t = rng.choice(pool)
        return {"kind": "scalar", "name": name, "type": t, "alias": rng.random() < 0.4, "repeat": rep, "doc": doc}
    if k == "fixed":
        n = rng.choice([1, 2, 3, 4, 8, 10, 16])
        z = cfg.allow_zchar and rng.random() < 0.2
        pad = None
        if cfg.allow_pad_attr and not z and not in_inline and rng.random() < 0.4:
            pad = (rng.choice(["left", "right"]), rng.choice(PADCHARS))
        return {"kind": "fixed", "name": name, "n": n, "z": z, "pad": pad, "repeat": rep, "doc": doc, "lz": rng.random() < 0.12}
    if k == "dyn":
        return {"kind": "dyn", "name": name, "spelling": rng.choice(["string", "char[]"]), "repeat": rep, "doc": doc}
    m = rng.choice(metas)
    mname = m["name"] if isinstance(m, dict) else m
    pad = None
    if (cfg.meta_pad_attr and cfg.allow_pad_attr and not in_inline and isinstance(m, dict) and m["kind"] == "fixed"
            and rng.random() < 0.35):
        pad = (rng.choice(["left", "right"]), rng.choice(PADCHARS))
    return {"kind": "metaref", "name": name, "meta": mname, "named": rng.random() < 0.7, "repeat": rep,
            "doc": ("`%s meta doc`" % name) if rng.random() < 0.25 else None, "pad": pad}


def gen_program(rng, cfg=None):
    cfg = cfg or Cfg()
    _inline_counter[0] = 0
    prog = {"options": gen_options(rng, cfg), "metas": [], "packets": []}
    metas = []
    if cfg.allow_meta and rng.random() < 0.4:
        entries = []
        for nm in _names(rng, ["OrdId", "Acct", "Px", "Sz", "Mkt"], rng.randint(1, 3)):
            f = gen_simple_field(rng, Cfg(allow_meta=False, allow_repeat=False, allow_pad_attr=False,
                                          allow_char=cfg.allow_char, allow_zchar=cfg.allow_zchar), nm, [], False)
            f["doc"] = "`%s`" % nm  # MetaData entries need a doc string (the visitor dereferences it)
            entries.append(f)
            metas.append(f)
        if cfg.meta_alias and rng.random() < 0.35:
            # a reference declaration: `<earlier entry> <new name> `doc`,`
            src = rng.choice(entries)
            al = dict(src)
            al["name"] = rng.choice(["Alias", "Also", "Twin"]) + src["name"]
            al["alias_of"] = src["name"]
            al["doc"] = "`%s`" % al["name"]
            # anywhere behind the entry it names (a reference declaration names an EARLIER entry): reference and plain entries interleave
            entries.insert(rng.randint(entries.index(src) + 1, len(entries)), al)
            metas.append(al)
        k = rng.randint(1, len(entries) - 1) if (cfg.more_attrs and len(entries) > 1 and rng.random() < 0.3) else None
        if k is not None and not any(e.get("alias_of") for e in entries):     # a reference declaration names an EARLIER entry
            prog["metas"].append({"name": "Types", "entries": entries[:k]})
            prog["metas"].append({"name": "Common", "entries": entries[k:]})
        else:
            prog["metas"].append({"name": "Types", "entries": entries})
    npk = rng.randint(1, cfg.max_packets)
    pnames = _names(rng, (ODD_PKT_NAMES + PKT_NAMES[:4]) if cfg.acronym_packets else PKT_NAMES, npk)
    # packet 0 is the root; later packets may only reference packets with a larger index (no cycles)
    for i, pn in enumerate(pnames):
        nf = rng.randint(0 if i > 0 else 1, cfg.max_fields)
        fnames = _names(rng, FLD_NAMES, nf + 6, cfg.odd_names)
        fields = []
        later = pnames[i + 1:]
        used_len = False
        j = 0
        while len(fields) < nf:
            name = fnames[j]
            j += 1
            r = rng.random()
            if cfg.allow_match and later and r < 0.18:
                # key field + match field (+ optional length field before it, root only)
                ktype = rng.choice(INTS[:6] + (["string"] if cfg.string_keys else []))
                kfield = None
                if cfg.wide_keys and rng.random() < 0.3:
                    # the key may be any member: 64-bit integers, fixed strings, MetaData-typed members
                    alt = rng.choice(["u64", "i64", "fixed", "meta"])
                    mk = [m for m in metas if isinstance(m, dict) and not m.get("repeat")
                          and ((m["kind"] == "scalar" and m["type"] in INTS) or (m["kind"] == "fixed" and not m["z"] and m["n"] >= 3) or m["kind"] == "dyn")]     # "K15" must fit
                    if alt in ("u64", "i64"):
                        ktype = alt
                    elif alt == "fixed" and cfg.string_keys:
                        ktype = "string"
                        kfield = {"kind": "fixed", "name": name, "n": rng.choice([3, 4, 8]), "z": False, "pad": None, "repeat": False, "doc": None}
                    elif alt == "meta" and mk and (cfg.string_keys or any(m["kind"] == "scalar" for m in mk)):
                        m = rng.choice([m for m in mk if cfg.string_keys or m["kind"] == "scalar"])
                        ktype = m["type"] if m["kind"] == "scalar" else "string"
                        kfield = {"kind": "metaref", "name": name, "meta": m["name"], "named": True, "repeat": False, "doc": None, "pad": None}
                kname = name
                mname = fnames[j]
                j += 1
                targets = rng.sample(later, rng.randint(1, min(3, len(later))))
                pairs = []
                kv = 1
                for t in targets:
                    if rng.random() < 0.3:
                        # key lists around the formatter's wrap width (5 per line) and its multiples
                        ks = list(range(kv, kv + rng.choice([2, 3, 3, 5, 6, 7, 10, 11, 15])))
                        kv += len(ks)
                        pairs.append({"keys": [_key(ktype, x, rng) for x in ks], "list": True, "target": t})
                    else:
                        pairs.append({"keys": [_key(ktype, kv, rng)], "list": False, "target": t})
                        kv += 1
                if cfg.wide_keys and ktype in INTS and rng.random() < 0.15:
                    # the largest value of the key's type (for u32 / 64-bit keys beyond a Java int literal)
                    top = 2 ** (int(ktype[1:]) - (1 if ktype[0] == "i" else 0)) - 1
                    pairs.append({"keys": [str(top)], "list": False, "target": rng.choice(targets)})
                if cfg.wide_keys and rng.random() < 0.4:
                    # pairs (and the keys inside a list) in any order: a table is a set of keys, `2 : A, 10 : B, 1 : C`
                    rng.shuffle(pairs)
                    for pr in pairs:
                        if pr["list"] and rng.random() < 0.5:
                            rng.shuffle(pr["keys"])
                if kfield is not None:
                    fields.append(kfield)
                elif ktype == "string":
                    fields.append({"kind": "dyn", "name": kname, "spelling": "string", "repeat": False, "doc": None})
                else:
                    fields.append({"kind": "scalar", "name": kname, "type": ktype, "alias": ktype in ALIAS and rng.random() < 0.3, "repeat": False, "doc": None})
                if cfg.allow_length and i == 0 and not used_len and rng.random() < 0.6:
                    used_len = True
                    lname = fnames[j]
                    j += 1
                    fields.append({"kind": "length", "name": lname, "type": _len_type(rng), "alias": rng.random() < 0.3, "target": mname,
                                   "prefixed": rng.random() < 0.5, "doc": None})
                    if cfg.far_length and rng.random() < 0.3:
                        # something between the length field and its target
                        fields.append(gen_simple_field(rng, cfg, fnames[j], metas, allow_repeat=True))
                        j += 1
                fields.append({"kind": "match", "name": mname, "key": kname, "pairs": pairs})
            elif cfg.allow_ref and later and r < 0.30:
                t = rng.choice(later)
                named = rng.random() < 0.6 or any(x["name"] == t for x in fields) or t in fnames
                rep = cfg.allow_repeat and rng.random() < 0.3
                if cfg.allow_length and i == 0 and not used_len and (not rep or cfg.length_any_target) and rng.random() < 0.3:
                    used_len = True
                    fields.append({"kind": "length", "name": name, "type": _len_type(rng), "alias": rng.random() < 0.3,
                                   "target": (fnames[j] if named else t), "prefixed": rng.random() < 0.5, "doc": None})
                    name = fnames[j]
                    j += 1
                    if cfg.far_length and rng.random() < 0.3:
                        fields.append(gen_simple_field(rng, cfg, fnames[j], metas, allow_repeat=True))
                        j += 1
                fields.append({"kind": "ref", "name": name if named else t, "packet": t, "named": named, "repeat": rep,
                               "doc": ("`%s ref doc`" % t) if rng.random() < 0.3 else None})
            elif cfg.allow_inline and r < 0.40:
                if cfg.length_any_target and cfg.allow_length and i == 0 and not used_len and rng.random() < 0.3:
                    used_len = True
                    fields.append({"kind": "length", "name": name, "type": _len_type(rng), "alias": rng.random() < 0.3,
                                   "target": None, "prefixed": rng.random() < 0.5, "doc": None})
                    name = fnames[j]
                    j += 1
                fields.append(gen_inline(rng, cfg, name, cfg.inline_depth, later, metas))
                if len(fields) > 1 and fields[-2]["kind"] == "length" and fields[-2]["target"] is None:
                    fields[-2]["_tobj"] = fields[-1]
            elif cfg.allow_checksum and r < 0.47:
                fields.append({"kind": "checksum", "name": name, "type": rng.choice(INTS if rng.random() < 0.3 else ["u32", "u16", "u8", "u64"]), "alias": rng.random() < 0.3,
                               "algo": rng.choice(CHECKSUM_ALGOS), "prefixed": rng.random() < 0.5, "doc": None})
            else:
                if cfg.length_any_target and cfg.allow_length and i == 0 and not used_len and rng.random() < 0.12:
                    used_len = True
                    fields.append({"kind": "length", "name": name, "type": _len_type(rng), "alias": rng.random() < 0.3,
                                   "target": fnames[j], "prefixed": rng.random() < 0.5, "doc": None, "any_target": True})
                    name = fnames[j]
                    j += 1
                f = gen_simple_field(rng, cfg, name, metas)
                if f["kind"] == "metaref" and not f["named"]:
                    f["named"] = True    # a length field names its target
                if cfg.allow_tag and rng.random() < 0.1:
                    f["tag"] = rng.randint(1, 999)
                    if rng.random() < 0.2:
                        f["tag"] = "0%d" % f["tag"]
                if fields and fields[-1].get("any_target"):
                    fields[-1]["_tobj"] = f
                fields.append(f)
        _dedupe(fields)
        for f in fields:
            if cfg.more_attrs and f["kind"] in ("length", "checksum") and rng.random() < 0.25:
                # a doc is free text: printf verbs and a bare percent sign are ordinary characters in it
                f["doc"] = ("`%s doc`" % f["name"]) if rng.random() < 0.6 else "`%s: at most 100%% of MTU, %%d bytes, 50%%%% `" % f["name"]
            if cfg.more_attrs and cfg.allow_tag and f["kind"] in ("ref", "match", "inline", "length", "checksum", "metaref") and rng.random() < 0.06:
                f["tag"] = rng.randint(1, 999)
        for f in fields:
            t = f.pop("_tobj", None)
            if t is not None:     # the name the target ended up with
                f["target"] = t["meta"] if (t["kind"] == "metaref" and not t["named"]) else t["name"]
        if cfg.typeless and metas:
            ints = [m for m in metas if m["kind"] == "scalar" and m["type"] in INTS and not m.get("repeat")]
            used = {field_name(x) for x in fields} | {x.get("meta") for x in fields if x["kind"] == "metaref" and not x.get("named")}
            for f in fields:
                if f["kind"] in ("length", "checksum") and ints and rng.random() < 0.3:
                    m = rng.choice(ints)
                    if m["name"] in used or (f["kind"] == "length" and m["type"] == "i8"):     # see _len_type
                        continue
                    old_name = f["name"]
                    f["name"], f["type"], f["typeless"] = m["name"], m["type"], True
                    used.add(m["name"])
                    for g in fields:     # nothing refers to a length / checksum field by name, but keep it consistent
                        if g.get("target") == old_name:
                            g["target"] = m["name"]
        prog["packets"].append({"name": pn, "root": i == 0, "fields": fields})
    if cfg.more_attrs and rng.random() < 0.15:
        prog["split_options"] = rng.randrange(1, 8)
    if cfg.def_order and rng.random() < 0.3:
        # the grammar takes definitions in any order and the visitor makes three passes
        # (MetaData, options, packets), so the order carries no meaning
        prog["def_order"] = rng.choice(["meta-last", "options-last", "reversed", rng.randrange(1 << 30)])
    return prog


def _len_type(rng):
    """a length field is usually unsigned; the grammar takes any type and signed integers are served by every target"""
    # not i8: the samples fin-protoc itself prints into the emitted tests easily exceed 127 bytes of payload, and a length
    # that does not fit its field has no meaning in any target (C04 presupposes that it fits)
    return rng.choice([t for t in INTS if t != "i8"]) if rng.random() < 0.15 else rng.choice(UNSIGNED)


def _dedupe(fields):
    """Field names must be distinct within a packet (an unnamed reference is called after its type)."""
    seen = set()
    for f in fields:
        nm = f["meta"] if (f["kind"] == "metaref" and not f["named"]) else f["name"]
        if nm in seen:
            k = 2
            while "%s%d" % (f["name"], k) in seen:
                k += 1
            f["name"] = "%s%d" % (f["name"], k)
            if f["kind"] in ("metaref", "ref"):
                f["named"] = True
            nm = f["name"]
        seen.add(nm)


def _key(ktype, v, rng=None):
    if ktype == "string":
        # a key is free text between quotes: a percent sign is an ordinary character in it (decided by the key's number, not by a
        # draw, so that the rest of the stream is unchanged)
        return ('"%%K%d"' % v) if v % 8 == 3 else ('"K%d%%"' % v) if v % 8 == 7 else ('"K%d"' % v)
    # one key in twelve is written with leading zeros: numbers are decimal however they are padded
    return ("0%d" % v if v % 10 < 8 else "00%d" % v) if (rng is not None and rng.random() < 0.08) else str(v)


_inline_counter = [0]


def gen_inline(rng, cfg, name, depth, later=(), metas=()):
    nf = rng.randint(1, 3)
    fields = []
    rich = cfg.inline_rich
    for nm in _names(rng, ["Px", "Sz", "Id", "Note", "Kind", "Sub"], nf):
        r = rng.random()
        if depth > 1 and r < 0.2:
            fields.append(gen_inline(rng, cfg, nm, depth - 1, later, metas))
        elif rich and cfg.allow_ref and later and r < 0.35:
            t = rng.choice(list(later))
            named = rng.random() < 0.7 or any(x.get("name") == t for x in fields)
            fields.append({"kind": "ref", "name": (nm + "Ref") if named else t, "packet": t, "named": named,
                           "repeat": cfg.allow_repeat and rng.random() < 0.3, "doc": ("`%s doc`" % nm) if rng.random() < 0.3 else None})
        elif rich and cfg.allow_match and later and r < 0.45:
            ktype = rng.choice(INTS[:6] + (["string"] if cfg.string_keys else []))
            targets = rng.sample(list(later), rng.randint(1, min(2, len(later))))
            pairs = [{"keys": [_key(ktype, i + 1, rng)], "list": False, "target": t} for i, t in enumerate(targets)]
            if ktype == "string":
                fields.append({"kind": "dyn", "name": nm + "Key", "spelling": "string", "repeat": False, "doc": None})
            else:
                fields.append({"kind": "scalar", "name": nm + "Key", "type": ktype, "alias": ktype in ALIAS and rng.random() < 0.3, "repeat": False, "doc": None})
            fields.append({"kind": "match", "name": nm + "Body", "key": nm + "Key", "pairs": pairs})
        else:
            fields.append(gen_simple_field(rng, cfg, nm, list(metas) if rich else [], in_inline=True))
    _dedupe(fields)
    # inline object names are type names in every target: keep them unique per program
    _inline_counter[0] += 1
    if cfg.unique_inline:
        # type names that every strcase conversion leaves alone
        uniq = rng.choice(["Item", "Block", "Row", "Part", "Group", "Slot"]) + str(_inline_counter[0])
    else:
        uniq = name + "Grp"
    return {"kind": "inline", "name": uniq, "fields": fields, "repeat": cfg.allow_repeat and rng.random() < 0.5}


# ----------------------------------------------------------------------------- rendering

class Layout:
    """How to lay a program out.  Default = the style of the repository's samples."""

    def __init__(self, rng=None, wild=False, comments=False, semis=None, commas=None):
        self.rng = rng
        self.wild = wild
        self.comments = comments
        self.semis = semis
        self.commas = commas

    def sp(self):
        if not self.wild:
            return " "
        return self.rng.choice([" ", "  ", "\t", " \t ", "\n", "\n\n  "])

    def nl(self, ind):
        if not self.wild:
            return "\n" + "    " * ind
        return self.rng.choice(["\n", "\n\n", " ", "\n\t", "\n        "])


def type_text(f):
    if f["kind"] == "scalar":
        return ALIAS[f["type"]] if f.get("alias") else f["type"]
    if f["kind"] == "fixed":
        # a length may be written with leading zeros: DIGITS is [0-9]+ and the number is decimal
        return ("zchar[%s]" if f["z"] else "char[%s]") % (("0%d" % f["n"]) if f.get("lz") else f["n"])
    if f["kind"] == "dyn":
        return f["spelling"]
    raise ValueError(f)


def render_field(f, L, ind, with_attrs=True):
    s = ""
    nl = L.nl(ind)
    if with_attrs:
        if f.get("tag") is not None:
            s += "@tag(%s)" % f["tag"] + nl
        if f["kind"] in ("fixed", "metaref") and f.get("pad"):
            s += "@%sPad(%s)" % f["pad"] + nl
        if f["kind"] == "length" and f["prefixed"]:
            s += "@lengthOf(%s)" % f["target"] + nl
        if f["kind"] == "checksum" and f["prefixed"]:
            s += "@calculatedFrom(%s)" % f["algo"] + nl
    rep = "repeat" + L.sp() if f.get("repeat") else ""
    doc = (L.sp() + f["doc"]) if f.get("doc") else ""
    k = f["kind"]
    if k in ("scalar", "fixed", "dyn"):
        return s + rep + type_text(f) + L.sp() + f["name"] + doc + ","
    if k == "metaref":
        return s + rep + f["meta"] + ((L.sp() + f["name"]) if f["named"] else "") + doc + ","
    if k == "ref":
        return s + rep + f["packet"] + ((L.sp() + f["name"]) if f["named"] else "") + doc + ","
    if k == "inline":
        body = "".join(L.nl(ind + 1) + render_field(x, L, ind + 1, False) for x in f["fields"])
        return s + rep + f["name"] + L.sp() + "{" + body + L.nl(ind) + "},"
    ty = "" if f.get("typeless") else (ALIAS[f["type"]] if f.get("alias") else f.get("type", "")) + L.sp()
    if k == "length":
        if f["prefixed"]:
            return s + ty + f["name"] + doc + ","
        return s + ty + f["name"] + L.sp() + "@lengthOf(%s)" % f["target"] + doc + ","
    if k == "checksum":
        if f["prefixed"]:
            return s + ty + f["name"] + doc + ","
        return s + ty + f["name"] + L.sp() + "@calculatedFrom(%s)" % f["algo"] + doc + ","
    if k == "match":
        body = ""
        for p in f["pairs"]:
            key = ("[" + ", ".join(p["keys"]) + "]") if p["list"] else p["keys"][0]
            body += L.nl(ind + 1) + key + L.sp() + ":" + L.sp() + p["target"] + ","
        return s + "match" + L.sp() + f["key"] + L.sp() + "as" + L.sp() + f["name"] + L.sp() + "{" + body + L.nl(ind) + "},"
    raise ValueError(k)


def field_name(f):
    return f["name"]


def render(prog, L=None):
    L = L or Layout()
    parts = []
    optblocks = [prog["options"]] if prog["options"] else []
    if prog.get("split_options") and len(prog["options"]) > 1:
        k = prog["split_options"] % (len(prog["options"]) - 1) + 1
        optblocks = [prog["options"][:k], prog["options"][k:]]
    for ob in optblocks:
        body = "".join(L.nl(1) + "%s%s=%s%s;" % (k, L.sp(), L.sp(), v) for k, v in ob)
        parts.append("options" + L.sp() + "{" + body + L.nl(0) + "}")
    for m in prog["metas"]:
        body = "".join(L.nl(1) + (render_field(e, L, 1, False) if not e.get("alias_of") else
                                  e["alias_of"] + L.sp() + e["name"] + ((L.sp() + e["doc"]) if e.get("doc") else "") + ",")
                       for e in m["entries"])
        parts.append("MetaData" + L.sp() + m["name"] + L.sp() + "{" + body + L.nl(0) + "}")
    for p in prog["packets"]:
        body = "".join(L.nl(1) + render_field(f, L, 1) for f in p["fields"])
        parts.append(("root" + L.sp() if p["root"] else "") + "packet" + L.sp() + p["name"] + L.sp() + "{" + body + L.nl(0) + "}")
    o = prog.get("def_order")
    if o is not None:
        no = len(optblocks)
        nm = len(prog["metas"])
        if o == "meta-last":
            parts = parts[:no] + parts[no + nm:] + parts[no:no + nm]
        elif o == "options-last":
            parts = parts[no:] + parts[:no]
        elif o == "reversed":
            parts = parts[::-1]
        else:
            # a stable pseudo-random order: each definition gets its own key, so that adding or removing one block (a rewrite
            # that adds an options block, say) leaves the relative order of all the others alone
            import hashlib
            labels = (["options#%d" % i for i in range(no)] + ["meta:" + m["name"] for m in prog["metas"]] +
                      ["packet:" + p["name"] for p in prog["packets"]])
            parts = [x for _, x in sorted(zip(labels, parts), key=lambda lx: hashlib.sha256(("%s|%s" % (o, lx[0])).encode()).hexdigest())]
    return (L.nl(0) + ("\n" if not L.wild else "")).join(parts) + "\n"


if __name__ == "__main__":
    import sys
    rng = random.Random(int(sys.argv[1]) if len(sys.argv) > 1 else 1)
    print(render(gen_program(rng)))
