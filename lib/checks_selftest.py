"""C17: the emitted self-tests build a sample for every packet, round-trip it and pass.

Deciding method (DESIGN §8 C17):
  1. the real test text of every target is extracted to `SelfTest.Test` (tv/tests.py: strict templates + the target
     language's typing/scoping rules for the sample);
  2. the Lean driver evaluates `SelfTest.emittedRun` (the test run against the operational semantics of the emitted
     codec) and `specOk` (hypothesis of theorem `selftest_passes`) with and without a checksum service;
  3. correspondence: the emitted output is built and its tests are run by the target's own toolchain against the
     stand-in runtimes of /verif/runtime; model verdict and real verdict must agree test by test.
"""
import concurrent.futures
import copy
import importlib
import json
import os
import random
import re
import subprocess
import sys

from common import VERIF, log, rm, scratch
from framework import check_obligations
import dslgen
import harness
import leandrv
import pipeline

sys.path.insert(0, os.path.join(VERIF, "tv"))
import tests as tvtests

LANGS = ["go", "rust", "java", "python", "cpp"]
RUNTIME_DIR = {"go": "go", "rust": "rust", "java": "java", "python": "python", "cpp": "cpp"}
MODES = ["none", "sum"]

# Rust / C++ / Java / Python keywords that the strcase conversions can produce from a field name: a C07 matter
# (names), kept out of the C17 programs so that one cause is not reported under two properties.
KEYWORDY = {"Ref", "Type", "Class", "Default", "Match", "Use", "Move", "Loop", "Mod", "Self", "Super", "Struct", "Enum", "Final", "New"}

ISSUE_CODES = [
    (r"cannot find symbol: class|package .* does not exist", "class-path-unresolvable"),
    (r"already defined|redefinition of|redeclaration|declared twice|no new variables", "local-declared-twice"),
    (r"specified more than once|duplicate field name|named twice", "member-named-twice"),
    (r"not copyable|copy of a std::unique_ptr|deleted function", "copies-noncopyable"),
    (r"undeclared identifier|is not defined|undefined: |cannot find symbol: variable|was not declared", "uses-undeclared-variable"),
    (r"cannot find struct, variant or union type|use of undeclared type|not in scope|unresolved import", "type-not-in-scope"),
    (r"no variant named|cannot find struct `|undefined: msg\.|unknown type name", "unknown-type"),
    (r"contains itself", "sample-contains-itself"),
    (r"used after it was moved", "used-after-move"),
    (r"is not one of the match targets", "not-one-of-the-match-targets"),
    (r"an instance of .* where .* is declared", "wrong-instance-type"),
    (r"declared and not used", "unused-variable"),
    (r"nothing on the right-hand side|without an argument", "empty-expression"),
    (r"does not implement Default|no function `default`", "no-default"),
    (r"mismatched types|cannot be converted|lossy conversion|used as|assigned to|literal assigned|moved into", "literal-type-mismatch"),
    (r"missing field", "missing-member-in-literal"),
    (r"has no field named|unknown field|no member named|has no member|cannot find symbol: method|not a member", "unknown-member"),
    (r"package (clause|declaration) without a name|imported from an empty path", "package-option-missing"),
    (r"integer number too large|does not fit|truncated to", "literal-out-of-range"),
    (r"test body is not|does not end with|header not recognised|prelude not recognised|import block not recognised|include block", "skeleton-not-recognised"),
    (r"fix-up", "fixup-shape"),
]

# Known defects of the test emitters are structural: they need a particular shape of the packet tree a test instantiates
# (feature, computed in Lean from the schema) and show up as one of several symptoms.  A failing test is attributed to a
# cause only if its tree HAS the feature and the symptom is one that cause produces; otherwise the raw symptom is the signature.
CAUSES = [
    # (cause, required feature, symptom patterns over the model's cause string)
    ("nested-computed-fixup", "nested-computed", r"mismatch/with-checksum-service/nested"),
    ("nested-match-sample", "nested-match",
     r"invalid/(type-not-in-scope|unknown-type|literal-type-mismatch|uses-undeclared-variable|used-after-move|member-named-twice|missing-member-in-literal|no-default)"
     r"|decode-fails/nested-key|ill-typed/.*not-one-of-the-match|encode-fails"),
    ("flat-local-names", "local-name-clash",
     r"invalid/(local-declared-twice|sample-contains-itself|literal-type-mismatch|used-after-move|unused-variable|uses-undeclared-variable)"
     r"|ill-typed/|mismatch/(always|with-checksum-service)/(nested|shared-instance)|decode-fails/"),
    ("match-holder-by-value", "match-holder-by-value", r"invalid/(copies-noncopyable|used-after-move)"),
]


def holds_checksum(structs, tables, name, seen=None):
    """does an instance of struct `name` contain (at any depth) a checksum member — a value that depends on where in the
    buffer the instance is written, so that encoding ONE instance twice stores two different values back into it"""
    seen = seen if seen is not None else set()
    if name in seen:
        return False
    seen.add(name)
    st = next((x for x in structs if x["name"] == name), None)
    if st is None:
        return False

    def step(e):
        if not isinstance(e, list) or not e:
            return False
        if e[0] == "checksum":
            return True
        if e[0] == "object":
            return holds_checksum(structs, tables, e[1], seen)
        if e[0] == "dynamic":      # any payload the tables can put there
            return any(holds_checksum(structs, tables, tgt, seen) for t in tables for _, tgt in t.get("entries", []))
        return any(step(x) for x in e if isinstance(x, list))
    return any(step(e) for e in st["enc"])


def attribute(cause, features, lang=None):
    for name, feat, pat in CAUSES:
        if feat == "local-name-clash" and lang in ("go", "python", "cpp"):
            feat = "local-name-clash/member"      # these three name every local after the MEMBER; Java names a match payload's after its packet
        if feat in features and re.search(pat, cause):
            return "cause/" + name
    return cause


REAL_CODES = [
    (r"expected identifier, found keyword|expected unqualified-id|<identifier> expected", "identifier-is-keyword"),
    (r"put_u8_le|get_u8_le|put_i8_le|get_i8_le", "rust-one-byte-le-call"),
    (r"conflicting declaration .auto service.|variable checksumService is already defined", "two-checksums-one-scope"),
    (r"redefinition of .struct \w+Tag.|conflicting declaration .using", "factory-name-collision"),
    (r"lossy conversion from long to int", "java-u64-prefix"),
    (r"integer number too large", "java-int-literal-too-large"),
]


def code_of(text, table, dflt="other"):
    for pat, code in table:
        if re.search(pat, text):
            return code
    return dflt + ":" + re.sub(r"[^a-z]+", "-", re.sub(r"`[^`]*`|'[^']*'|\"[^\"]*\"|\b[A-Z]\w*\b|\d+", "", text).lower())[:40].strip("-")


def force_options(p):
    have = {k for k, _ in p["options"]}
    if "JavaPackage" not in have:
        p["options"].append(("JavaPackage", '"com.example.msg"'))
    if "GoPackage" not in have:
        p["options"].append(("GoPackage", '"msg"'))
    if "GoModule" not in have:
        p["options"].append(("GoModule", '"example.com/msg"'))
    return p


def programs(ctx, n):
    rng = random.Random(ctx.seed * 131 + 7)
    saved = list(dslgen.FLD_NAMES)
    dslgen.FLD_NAMES[:] = [x for x in saved if x not in KEYWORDY]
    try:
        progs = []
        # a fixed corner: every field kind x repeat x nesting, both match key forms
        progs.append(FIXED_ALL_KINDS)
        progs.append(FIXED_STRING_KEYS)
        progs.append(FIXED_REFERENCE_CHAIN)
        progs.append(FIXED_LENGTH_OF_STRING)
        # length fields of every width class in front of payloads that are not one byte long: a test that compares the
        # instance it encoded with the decoded one depends on what the encoder stores back into the length member
        progs.extend(FIXED_LENGTH_WIDTHS)
        progs.append(FIXED_EMPTY_FIRST)
        # package / module names are the user's: a digit next to a letter, a capital inside (fix44, ouchV5) — the codec files
        # and their tests must agree on how such a name is spelled
        for g, j in (("fix44", "com.acme.fix44"), ("ouchV5", "io.ouchV5.codec"), ("sample_bin", "sample_bin.msgs")):
            progs.append(FIXED_REFERENCE_CHAIN.replace('"example.com/msg"', '"example.com/acme/%s"' % g).replace('"msg"', '"%s"' % g).replace('"com.example.msg"', '"%s"' % j))
        for p in pipeline.matrix_programs()[: (6 if ctx.tier == "quick" else 48)]:
            progs.append(dslgen.render(force_options(p)))
        for _ in range(n):
            progs.append(dslgen.render(force_options(dslgen.gen_program(rng, dslgen.Cfg()))))
        return progs
    finally:
        dslgen.FLD_NAMES[:] = saved


FIXED_ALL_KINDS = """options {
    StringPrefixLenType = u16;
    ArrayPrefixLenType = u16;
    JavaPackage = "com.example.msg";
    GoPackage = "msg";
    GoModule = "example.com/msg";
}

MetaData Meta {
    uint32 SeqNo `seq`,
    char[8] Venue `venue`,
}

packet Leg {
    uint16 LegId,
    string Sym,
}

packet Ack {
    uint8 Code,
}

packet Rej {
    uint8 Code,
    char[4] Why,
}

root packet Msg {
    uint16 MsgType,
    SeqNo,
    Venue,
    repeat uint8 Flags,
    repeat i64 Deltas,
    repeat string Names,
    repeat char[3] Tags,
    f32 Rate,
    f64 Px,
    Leg TheLeg,
    repeat Leg Legs,
    Inner {
        i8 A,
        f64 Q,
        repeat string Notes,
    },
    uint32 BodyLen @lengthOf(Body),
    match MsgType as Body {
        1 : Ack,
        [2, 3] : Rej,
    },
    uint32 Crc @calculatedFrom("CRC32"),
}
"""

FIXED_STRING_KEYS = """options {
    LittleEndian = true;
    StringPrefixLenType = u8;
    ArrayPrefixLenType = u32;
    JavaPackage = "com.example.msg";
    GoPackage = "msg";
    GoModule = "example.com/msg";
}

packet Logon {
    @leftPad('0')
    char[6] User,
    zchar[4] Pw,
}

packet Logout {
    i32 Reason,
}

root packet Frame {
    string Kind,
    u16 N @lengthOf(Payload),
    match Kind as Payload {
        "LOGON" : Logon,
        "LOGOUT" : Logout,
    },
    u8 Ck @calculatedFrom("SUM8"),
}
"""


# an inline object whose member is a packet that refers to further packets, reachable from the
# holder through the inline object ONLY: every type a sample message instantiates must be nameable where the test is emitted
# the FIRST pair of a table goes to a packet without fields, later ones do not: the sample's key and the sample's payload must
# come from the same pair
FIXED_EMPTY_FIRST = """options {
    StringPrefixLenType = u8;
    JavaPackage = "com.example.msg";
    GoPackage = "msg";
    GoModule = "example.com/msg";
}

root packet Envelope {
    u16 MsgType,
    u16 BodyLen @lengthOf(Body),
    match MsgType as Body {
        0 : Heartbeat,
        1 : Logon,
        [2, 3] : Logout,
    },
    u32 Seq,
}

packet Heartbeat {
}

packet Logon {
    char[8] User,
    string Password,
    repeat u32 Caps,
}

packet Logout {
    u8 Reason,
}
"""


FIXED_REFERENCE_CHAIN = """options {
    StringPrefixLenType = u16;
    ArrayPrefixLenType = u16;
    JavaPackage = "com.example.msg";
    GoPackage = "msg";
    GoModule = "example.com/msg";
}

root packet Order {
    u32 OrderId,
    Leg {
        u16 LegNo,
        Instrument Instr,
        Detail {
            Fee TheFee,
        },
    },
}

packet Basket {
    Instrument Main,
    repeat Instrument Others,
}

packet Instrument {
    char[8] Symbol,
    Venue Market,
}

packet Venue {
    u16 VenueId,
    string Name,
    Fee Listing,
}

packet Fee {
    i32 Amount,
    Ccy Unit,
}

packet Ccy {
    char[3] Iso,
}
"""


# @lengthOf aimed at a string (known finding: no generator computes it) — model and real run must still agree
FIXED_LENGTH_OF_STRING = """options {
    JavaPackage = "com.example.msg";
    GoPackage = "msg";
    GoModule = "example.com/msg";
}

root packet Note {
    u16 Kind,
    u16 TextLen @lengthOf(Text),
    string Text,
    u32 Tail,
}
"""


def _length_width_program(lt, kt):
    # a length field is only accepted in the root packet
    return """options {
    JavaPackage = "com.example.msg";
    GoPackage = "msg";
    GoModule = "example.com/msg";
}

packet Logon {
    u32 Seq,
    string User,
}

packet Ping {
    u8 Why,
}

root packet Frame {
    %s Kind,
    %s BodyLen @lengthOf(Body),
    match Kind as Body {
        7 : Logon,
        8 : Ping,
    },
    u16 Trailer,
}
""" % (kt, lt)


FIXED_LENGTH_WIDTHS = [_length_width_program("u8", "u16"), _length_width_program("u32", "u8"), _length_width_program("i64", "i16"),
                       _length_width_program("u8", "u16").replace("match Kind as Body {\n        7 : Logon,\n        8 : Ping,\n    },", "Logon Body,")]


def write_files(base, files):
    for name, text in files.items():
        p = os.path.join(base, name)
        os.makedirs(os.path.dirname(p), exist_ok=True)
        with open(p, "w", encoding="utf-8", newline="") as fh:
            fh.write(text)


def real_run(job):
    lang, d, mode = job
    env = dict(os.environ)
    env.pop("FP_CHECKSUM", None)
    if mode == "sum":
        env["FP_CHECKSUM"] = "sum"
    env.update({"GOFLAGS": "-mod=mod", "GOPROXY": "off", "CARGO_NET_OFFLINE": "true"})
    err = None
    for limit in (900, 3600):       # a loaded machine is no verdict: one more, much longer, attempt
        try:
            p = subprocess.run([sys.executable, os.path.join(VERIF, "runtime", RUNTIME_DIR[lang], "run.py"), d],
                               capture_output=True, text=True, timeout=limit, env=env)
            try:
                return json.loads(p.stdout)
            except ValueError:
                return json.loads(p.stdout.strip().split("\n")[-1])
        except subprocess.TimeoutExpired as e:
            err = e
        except Exception as e:  # a runner failure is a tooling error, never a verdict
            return {"runner_error": "%s: %s" % (type(e).__name__, str(e)[:300])}
    return {"runner_error": "%s: %s" % (type(err).__name__, str(err)[:300])}


def first_error(detail):
    """the first compiler message (without position), used to recognise one failure reported on several tests"""
    for line in (detail or "").split("\n"):
        if line.startswith("["):
            continue
        if re.search(r"error|Error|cannot|undefined|redefinition|expected", line):
            return re.sub(r"^[^ ]*:\d+(:\d+)?:? *", "", line.strip())[:160]
    return (detail or "").strip().split("\n")[0][:160]


LOC = {
    "go": re.compile(r"^\.?/?([\w./-]+\.go):(\d+)(?::\d+)?: (.*)$"),
    "rust": re.compile(r"^\s*--> (?:src/)?([\w./-]+\.rs):(\d+):\d+"),
    "java": re.compile(r"^([\w./-]+\.java):(\d+): error: (.*)$"),
    "cpp": re.compile(r"^\.?/?([\w./-]+\.(?:hpp|cpp|h)):(\d+):\d+: (?:fatal )?error: (.*)$"),
    "python": re.compile(r"(?:File \"|at )([\w./-]+\.py)[\", :]+(?:line )?(\d+)"),
}


def rust_test_ranges(text):
    """line ranges (1-based, inclusive) of the #[cfg(test)] modules of an emitted Rust file"""
    out, start = [], None
    for no, l in enumerate(text.split("\n"), 1):
        if l.startswith("#[cfg(test)]"):
            start = no
        elif start is not None and l.startswith("}"):
            out.append((start, no))
            start = None
    return out


def codec_build_errors(lang, files, real):
    """compiler messages located in the emitted CODEC (not in its tests): [(file, line, message)]"""
    texts = [real.get("build_log", "")] + [t.get("detail", "") for t in real.get("tests", []) if t.get("status") == "error"]
    seen, out = set(), []
    for text in texts:
        lines = text.split("\n")
        for i, l in enumerate(lines):
            m = LOC[lang].match(l.lstrip() if lang == "python" else l)
            if not m:
                continue
            f, no = m.group(1), int(m.group(2))
            msg = m.group(3) if m.lastindex and m.lastindex >= 3 else ""
            if lang == "rust":
                # the message is the nearest `error…` line above the arrow
                for j in range(i - 1, max(-1, i - 6), -1):
                    if lines[j].startswith("error"):
                        msg = lines[j]
                        break
                else:
                    continue
                name = f.rsplit("/", 1)[-1]
                if any(a <= no <= b for a, b in rust_test_ranges(files.get(name, ""))):
                    continue
            elif lang == "go":
                if f.endswith("_test.go"):
                    continue
            elif lang == "java":
                if "main/java/" not in f:      # test classes, or a path clipped by the runner: not attributable to the codec
                    continue
            elif lang == "cpp":
                if "test/" in f or f.endswith("_test.cpp") or "gtest" in f or "/runtime/" in f:
                    continue
            elif lang == "python":
                if f.endswith("_test.py") or f.rsplit("/", 1)[-1] not in {k.rsplit("/", 1)[-1] for k in files}:
                    continue
                if real.get("build") != "error" and not re.search(r"NameError: name '\w+' is not defined", text):
                    # a traceback through the module while a test RUNS is not a build error — except a name that is bound nowhere:
                    # Python resolves names when the statement runs, so that is the form an undeclared identifier takes there
                    continue
                msg = next((x for x in lines if re.match(r"\w*(Error|Exception)\b", x)), lines[-1] if lines else "")
            key = (f.rsplit("/", 1)[-1], no, msg[:80])
            if key not in seen:
                seen.add(key)
                out.append((f, no, msg.strip()[:300]))
    return out


def match_real(real, tname):
    for t in real.get("tests", []):
        if t["name"] == tname or t["name"].endswith("." + tname) or t["name"].endswith("::" + tname) or tname.endswith(t["name"]):
            return t
    return None


def run_c17(ctx):
    check_obligations(ctx, "C17")
    n = 10 if ctx.tier == "quick" else 150
    texts = programs(ctx, n)
    gens = harness.run_ops([{"op": "gen", "text": t, "order": LANGS, "fresh": True} for t in texts])
    work = scratch("fpv-c17-")
    items = []      # (text index, lang, files, ex, tex)
    reqs = []
    jobs = []
    try:
        for i, (t, g) in enumerate(zip(texts, gens)):
            if "runs" not in g:
                ctx.count("programs_rejected_by_the_compiler")
                continue
            ctx.count("programs")
            for run in g["runs"]:
                lang = run["lang"]
                if "files" not in run:
                    ctx.finding("generator/%s/no-output" % lang, "generator %s produced no files for an accepted DSL" % lang, {"dsl": t, "run": {k: v for k, v in run.items() if k != "files"}})
                    continue
                mod = importlib.import_module(pipeline.EXTRACTOR[lang])
                try:
                    ex = mod.extract(run["files"])
                    tex = tvtests.extract_tests(lang, run["files"], ex)
                except Exception as e:
                    ctx.finding("tool/extractor-crash/%s" % lang, "%s: %s" % (type(e).__name__, e), {"dsl": t}, False)
                    continue
                tables = list(reversed(ex["tables"])) if lang == "python" else ex["tables"]
                prog = {"structs": ex["structs"], "tables": tables}
                items.append((i, lang, run["files"], ex, tex, prog))
                reqs.append({"op": "selftest", "text": t, "prog": prog, "flags": tex["flags"],
                             "tests": [{"name": T["name"], "packet": T["packet"] or "?", "sample": T["sample"], "fixups": T["fixups"]} for T in tex["tests"]]})
                d = os.path.join(work, "%03d" % i, lang)
                write_files(d, run["files"])
                for mode in MODES:
                    jobs.append((lang, d, mode))
        outs = leandrv.run_ops(reqs)
        with concurrent.futures.ThreadPoolExecutor(max_workers=14) as pool:
            reals = dict(zip(jobs, pool.map(real_run, jobs)))
    finally:
        rm(work)

    for (i, lang, files, ex, tex, prog), o in zip(items, outs):
        t = texts[i]
        d = os.path.join(work, "%03d" % i, lang)
        ctx.count("target_outputs")
        if "results" not in o:
            ctx.finding("tool/selftest-load/%s" % lang, "the Lean driver cannot load the extracted tests: %s" % str(o)[:300], {"dsl": t, "out": o}, False)
            continue
        file_issues = list(tex["issues"]) + ["residue: %s" % r["text"] for r in tex["residue"]] + ["marker: %s" % m["text"] for m in tex["markers"]]
        for name in o.get("missing", []):
            ctx.finding("selftest/%s/missing-test" % lang, "packet %s has no emitted test" % name, {"dsl": t, "target": lang, "packet": name})
        for u in o.get("unloadable", []):
            file_issues.append("test %s: %s" % (u.get("name"), u.get("load_error")))
        by_name = {r["name"]: r for r in o["results"]}
        codec_sigs = sorted({"%s/%s/%s/%s" % (x["side"], lang, x["kind"], x["attr"]) for x in o.get("reasons", [])})
        for mode in MODES:
            real = reals.get((lang, d, mode), {})
            if "runner_error" in real:
                ctx.finding("tool/runner/%s" % lang, real["runner_error"], {"dsl": t, "target": lang}, False)
                continue
            rows = []
            for T in tex["tests"]:
                ctx.count("test_evaluations")
                r = by_name.get(T["name"])
                issues = file_issues + T["issues"]
                rt = match_real(real, T["name"])
                real_status = rt["status"] if rt else ("error" if real.get("build") == "error" else "absent")
                real_detail = (rt or {}).get("detail", "") or real.get("build_log", "")[-600:]
                if issues:
                    model, cause, what = "invalid", "invalid/" + code_of(issues[0], ISSUE_CODES), issues[0]
                elif r is None:
                    model, cause, what = "invalid", "invalid/not-loaded", "test not loaded"
                else:
                    cls = r["cls_" + mode]
                    model = cls
                    what = r["emitted_" + mode] + ((" (differs at: %s)" % r["diff_" + mode]) if r.get("diff_" + mode) else "")
                    cause = cls + (("/" + code_of(r["emitted_" + mode].split(": ", 1)[-1], ISSUE_CODES)) if cls == "ill-typed" else "")
                    if cls == "mismatch":
                        cause += "/" + ("with-checksum-service" if (mode == "sum" and r["cls_none"] == "pass") else "always")
                        # a computed member that differs at the top level = a missing fix-up / store-back; "(nested)" = inside a member
                        d = r.get("diff_" + mode) or ""
                        cause += "/" + ("top-level-computed" if "(computed)" in d else "nested" if "(nested)" in d else "unlocated")
                    if cls == "decode-fails":
                        cause += "/" + (r.get("why_" + mode) or "unexplained")
                    if (cls == "pass" and mode == "sum" and T.get("shared") and tex["flags"].get("storeBack")
                            and "nested-computed" in r.get("features", [])
                            and any(holds_checksum(ex["structs"], ex.get("tables") or [], n) for n in T["shared"])):
                        # one instance stored in two places (the locals are references): it is encoded twice and the store-back of
                        # the second encode overwrites the checksum the first one wrote — the tree-shaped model does not see it
                        model, cause = "mismatch", "mismatch/with-checksum-service/shared-instance"
                        what = "an instance of %s is stored in two places and holds computed members" % ", ".join(T["shared"])
                if model != "pass" and r is not None:
                    cause = attribute(cause, r.get("features", []), lang)
                if model != "pass" and model != "invalid" and codec_sigs:
                    # the codec of this output deviates from the declared wire format (C01-C06 territory): the failing test is a consequence
                    # … of the reasons given for the packet under test if there are any, the encoder's first (it runs first)
                    own = sorted({"%s/%s/%s/%s" % (x["side"], lang, x["kind"], x["attr"]) for x in o.get("reasons", []) if x.get("packet") == T["packet"]},
                                 key=lambda g: (not g.startswith("enc/"), g))
                    cause = "codec/" + (own or codec_sigs)[0]
                rows.append((T, r, model, cause, what, real_status, real_detail))
            # what the real build complains about in tests the model objects to, too: an unrelated test of the same
            # compilation unit (Go package, Rust crate, C++ file) fails with the same message — collateral
            explained = {first_error(rd) for (_, _, m, _, _, rs, rd) in rows if m != "pass" and rs != "pass"}
            for (T, r, model, cause, what, real_status, real_detail) in rows:
                agree = (model == "pass") == (real_status == "pass")
                if agree:
                    ctx.count("model_and_real_run_agree")
                if model == "pass" and real_status == "pass":
                    ctx.count("tests_pass")
                    if o.get("enc") and o.get("dec") and r is not None and r["ok_" + mode]:
                        ctx.count("tests_pass_by_theorem")      # hypotheses of selftest_passes evaluated to true
                    else:
                        ctx.count("tests_pass_by_evaluation_only")   # codec not conforming / sample outside the encoder theorem's domain
                    ctx.sample({"target": lang, "test": T["name"], "mode": mode, "verdict": "model: pass (specOk, selftest_passes); real run with the %s toolchain: pass" % lang}, 4)
                    continue
                replay = {"dsl": t, "target": lang, "test": T["name"], "checksum_mode": mode, "model": what, "model_class": model,
                          "real_status": real_status, "real_detail": real_detail[:900], "sample": T["sample"], "fixups": T["fixups"],
                          "test_file": T["file"], "test_text": (files.get(T["file"]) or "")[:3000]}
                if not agree:
                    if model == "pass":
                        # the model has no objection to this test: a recognised defect of the emitted codec, or collateral damage
                        rc = code_of(real_detail, REAL_CODES, "")
                        if not rc.startswith(":"):
                            ctx.finding("selftest/%s/build/%s" % (lang, rc), "%s %s: the emitted code does not build: %s" % (lang, T["name"], real_detail[:200]), replay)
                            continue
                        if real_status == "error" and first_error(real_detail) in explained:
                            ctx.count("tests_not_built_because_of_another_test_in_the_same_unit")
                            continue
                        if real_status == "absent" and explained:
                            ctx.count("tests_not_run_because_another_test_took_the_process_down")
                            continue
                    sig = "correspondence/%s/model-%s-real-%s" % (lang, model, real_status)
                    ctx.finding(sig, "%s %s [%s]: model says %s (%s), the real run says %s (%s)" % (lang, T["name"], mode, model, what[:120], real_status, real_detail[:160]),
                                dict(replay, broken="correspondence T3: SelfTest model vs the emitted test run by the target's toolchain"), True)
                    continue
                sig = "selftest/%s/%s" % (lang, cause)
                ctx.finding(sig, "%s %s [%s]: %s; real run: %s %s" % (lang, T["name"], mode, what[:200], real_status, real_detail[:120]), replay)
        for T in tex["tests"]:
            ctx.count("tests")
    if ctx.broken and not ctx.violations:
        ctx.finding("obligation/C17", "; ".join(ctx.broken)[:500], {"broken": ctx.broken}, False)
    ctx.cov.update({"evaluations": ctx.cov.get("test_evaluations", 0), "dsl_texts": len(texts),
                    "explanation": "every DSL program x five targets: emitted tests extracted (strict templates + target typing rules), evaluated in Lean "
                                   "(emittedRun / specOk, with and without a checksum service) and built + run for real against the stand-in runtimes; "
                                   "model and real verdicts compared test by test"})
    ctx.assumptions.append("stand-in runtimes of /verif/runtime implement runtime/CONTRACT.md (the real codec libraries, netty, JUnit, gtest are not in the sandbox)")
    return ctx.finish("proof")


TABLE = {"C17": run_c17}
