"""Shared plumbing: paths, builds (Go harness / CLI / facts / Lean), caching, evidence."""
import hashlib
import json
import os
import shutil
import subprocess
import sys
import tempfile
import time

VERIF = os.path.dirname(os.path.dirname(os.path.abspath(__file__)))
REPO = os.environ.get("VERIF_REPO", "/repo")
_BASECACHE = os.path.join(VERIF, ".cache")
# one cache per tree under test, so that checks against a scratch worktree (VERIF_REPO, bin/mutant-eval) can run side by side
CACHE = _BASECACHE if REPO == "/repo" else os.path.join(_BASECACHE, "alt-" + hashlib.sha256(REPO.encode()).hexdigest()[:10])
LEAN = os.path.join(VERIF, "lean")
GOENV = dict(os.environ, GOFLAGS="-mod=mod", GOPROXY="off", GOTOOLCHAIN=os.environ.get("GOTOOLCHAIN", "auto"))
GOENV.pop("GOSUMDB", None)


def log(*a):
    print(*a, file=sys.stderr, flush=True)


def sh(cmd, cwd=None, env=None, check=True, timeout=None, input=None):
    p = subprocess.run(cmd, cwd=cwd, env=env, shell=isinstance(cmd, str), capture_output=True, text=True,
                       timeout=timeout, input=input)
    if check and p.returncode != 0:
        raise RuntimeError("command failed (%s): %s\n%s\n%s" % (p.returncode, cmd, p.stdout[-4000:], p.stderr[-4000:]))
    return p


def tree_hash(root, exts, skip=(".git", ".cache", ".lake", "evidence", "replays", "build")):
    h = hashlib.sha256()
    for d, dirs, files in os.walk(root):
        dirs[:] = sorted(x for x in dirs if x not in skip)
        for f in sorted(files):
            if exts and not f.endswith(exts):
                continue
            p = os.path.join(d, f)
            h.update(p.encode())
            try:
                with open(p, "rb") as fh:
                    h.update(fh.read())
            except OSError:
                pass
    return h.hexdigest()[:16]


def repo_hash():
    return tree_hash(REPO, (".go", ".mod", ".sum", ".g4", ".h"))


class Lock:
    """Coarse file lock so that concurrently started checks share one build."""

    def __init__(self, name):
        os.makedirs(CACHE, exist_ok=True)
        # the Lean project is shared by every tree under test: its lock is too
        self.path = os.path.join(_BASECACHE if name == "lake" else CACHE, name + ".lock")

    def __enter__(self):
        import fcntl
        self.fh = open(self.path, "w")
        fcntl.flock(self.fh, fcntl.LOCK_EX)
        return self

    def __exit__(self, *a):
        import fcntl
        fcntl.flock(self.fh, fcntl.LOCK_UN)
        self.fh.close()


def build_harness():
    """Build the overlay harness + the real CLI from /repo's CURRENT working tree."""
    with Lock("gobuild"):
        os.makedirs(CACHE, exist_ok=True)
        key = repo_hash() + tree_hash(os.path.join(VERIF, "harness"), (".go",))
        stamp = os.path.join(CACHE, "harness.stamp")
        hbin = os.path.join(CACHE, "harness")
        cbin = os.path.join(CACHE, "fin-protoc")
        if os.path.exists(stamp) and open(stamp).read() == key and os.path.exists(hbin) and os.path.exists(cbin):
            return hbin, cbin
        for f in (hbin, cbin, stamp):
            if os.path.exists(f):
                os.remove(f)
        ov = os.path.join(CACHE, "ov.json")
        with open(ov, "w") as fh:
            json.dump({"Replace": {os.path.join(REPO, "cmd/verifharness/main.go"): os.path.join(VERIF, "harness/main.go")}}, fh)
        sh(["go", "build", "-overlay", ov, "-o", hbin, "./cmd/verifharness"], cwd=REPO, env=GOENV)
        sh(["go", "build", "-o", cbin, "./cmd/"], cwd=REPO, env=dict(GOENV, CGO_ENABLED="0"))
        with open(stamp, "w") as fh:
            fh.write(key)
        return hbin, cbin


def scratch(prefix="fpv-"):
    base = "/var/tmp" if os.path.isdir("/var/tmp") else tempfile.gettempdir()
    return tempfile.mkdtemp(prefix=prefix, dir=base)


def rm(path):
    shutil.rmtree(path, ignore_errors=True)


def now():
    return time.time()


_SLOW = [0]


class _Done:
    def __init__(self, rc, out=b"", err=b""):
        self.returncode, self.stdout, self.stderr = rc, out, err


def run_bounded(args, cwd=None, timeout=300):
    """a command of the tree under test that normally takes well under a second: never raises on a time-out (returncode -9),
    and once one invocation of this run has not ended, the later ones are given less time (a tree that hangs, hangs often)"""
    if _SLOW[0]:
        timeout = min(timeout, 60 if _SLOW[0] < 3 else 15)
    try:
        return subprocess.run(args, cwd=cwd, capture_output=True, timeout=timeout)
    except subprocess.TimeoutExpired as e:
        _SLOW[0] += 1
        return _Done(-9, e.stdout or b"", e.stderr or b"")
